/-
Per-operation lemmas for T-tr: the SMT-LIB semantics (`evalBin` / `evalCmp` at
width 256, or 257 / 512 for the widened modular operations) of what
`trNode` builds, against the EVM word operations of `Evm/Ops.lean`.
All are stated on the natural-number values of arbitrary words.
-/
import EtkVerif.Smt.Translate
import EtkVerif.Sym.Eval
namespace EtkVerif
namespace Smt
open Evm

theorem word_eq_zero_iff (b : Word) : b = 0 ↔ b.toNat = 0 := by
  constructor
  · intro h; simp [h]
  · intro h; apply BitVec.eq_of_toNat_eq; simpa using h

theorem ofBool_toNat (c : Bool) : (Evm.ofBool c).toNat = if c then 1 else 0 := by
  cases c <;> simp [Evm.ofBool]

/-! ### arithmetic -/

theorem op_add (a b : Word) : evalBin .bvadd 256 a.toNat b.toNat = (Evm.add a b).toNat := by
  simp [evalBin, Evm.add]

theorem op_mul (a b : Word) : evalBin .bvmul 256 a.toNat b.toNat = (Evm.mul a b).toNat := by
  simp [evalBin, Evm.mul]

theorem op_sub (a b : Word) : evalBin .bvsub 256 a.toNat b.toNat = (Evm.sub a b).toNat := by
  have ha := a.isLt; have hb := b.isLt
  simp only [evalBin, Evm.sub, BitVec.toNat_ofInt]
  omega

theorem op_div (a b : Word) :
    (if b.toNat = 0 then 0 else evalBin .bvudiv 256 a.toNat b.toNat) = (Evm.div a b).toNat := by
  unfold Evm.div evalBin
  by_cases h : b.toNat = 0
  · simp [h]
  · simp only [h, if_false, BitVec.toNat_ofNat]
    exact (Nat.mod_eq_of_lt (Nat.lt_of_le_of_lt (Nat.div_le_self _ _) a.isLt)).symm

theorem op_mod (a b : Word) :
    (if b.toNat = 0 then 0 else evalBin .bvurem 256 a.toNat b.toNat) = (Evm.mod a b).toNat := by
  unfold Evm.mod evalBin
  by_cases h : b.toNat = 0
  · simp [h]
  · simp only [h, if_false, BitVec.toNat_ofNat]
    exact (Nat.mod_eq_of_lt (Nat.lt_of_le_of_lt (Nat.mod_le _ _) a.isLt)).symm

theorem smtSDiv_eq_sdiv {w : Nat} (x y : BitVec w) (h : y ≠ 0) : x.smtSDiv y = x.sdiv y := by
  have hn : -y ≠ 0 := by
    intro h0; apply h
    have := congrArg (fun z => -z) h0
    simpa using this
  rw [BitVec.smtSDiv_eq, BitVec.sdiv_eq]
  simp only [BitVec.smtUDiv, h, hn, if_false]

theorem op_sdiv (a b : Word) :
    (if b.toNat = 0 then 0 else evalBin .bvsdiv 256 a.toNat b.toNat) = (Evm.sdiv a b).toNat := by
  unfold Evm.sdiv evalBin
  by_cases h : b.toNat = 0
  · simp [h]
  · have hb : b ≠ 0 := fun h0 => h ((word_eq_zero_iff b).mp h0)
    simp only [h, if_false, BitVec.ofNat_toNat, BitVec.setWidth_eq]
    rw [smtSDiv_eq_sdiv _ _ hb]
    congr 1
    apply BitVec.eq_of_toInt_eq
    rw [BitVec.toInt_sdiv, BitVec.toInt_ofInt]

theorem op_smod (a b : Word) :
    (if b.toNat = 0 then 0 else evalBin .bvsrem 256 a.toNat b.toNat) = (Evm.smod a b).toNat := by
  unfold Evm.smod evalBin
  by_cases h : b.toNat = 0
  · simp [h]
  · simp only [h, if_false, BitVec.ofNat_toNat, BitVec.setWidth_eq]
    congr 1
    apply BitVec.eq_of_toInt_eq
    rw [BitVec.toInt_srem, BitVec.toInt_ofInt]
    have ha := BitVec.toInt_lt (x := a); have ha' := BitVec.le_toInt (x := a)
    have h1 : (a.toInt.tmod b.toInt).natAbs ≤ a.toInt.natAbs := by
      rw [Int.natAbs_tmod]; exact Nat.mod_le _ _
    have h2 : 0 ≤ a.toInt → 0 ≤ a.toInt.tmod b.toInt := Int.tmod_nonneg _
    have h3 : a.toInt < 0 → a.toInt.tmod b.toInt ≤ 0 := by
      intro hneg
      have := Int.tmod_nonneg (a := -a.toInt) b.toInt (by omega)
      rw [Int.neg_tmod] at this; omega
    symm; apply Int.bmod_eq_of_le <;> omega

theorem op_exp (a b : Word) :
    (if a.toNat = 0 ∧ b.toNat = 0 then 1 else a.toNat ^ b.toNat) % 2 ^ 256 = (Evm.exp a b).toNat := by
  unfold Evm.exp
  rw [BitVec.toNat_ofNat]
  by_cases h : a.toNat = 0 ∧ b.toNat = 0
  · simp [h]
  · simp [h]

/-! ### widened modular arithmetic -/

set_option exponentiation.threshold 600 in
theorem op_addmod (a b m : Word) :
    (if m.toNat = 0 then 0 else
      (evalBin .bvurem 257 (evalBin .bvadd 257 b.toNat a.toNat) m.toNat / 2 ^ 0) % 2 ^ (255 + 1 - 0))
      = (Evm.addmod a b m).toNat := by
  unfold Evm.addmod evalBin
  by_cases h : m.toNat = 0
  · simp [h]
  · have ha := a.isLt; have hb := b.isLt; have hm := m.isLt
    have h257 : (2:Nat)^257 = 2^256 * 2 := Nat.pow_succ 2 256
    have e4 : (b.toNat + a.toNat) % 2^257 = a.toNat + b.toNat := by
      rw [Nat.add_comm]; exact Nat.mod_eq_of_lt (by omega)
    simp only [h, if_false, BitVec.toNat_ofNat, e4, Nat.pow_zero, Nat.div_one]

set_option exponentiation.threshold 600 in
theorem op_mulmod (a b m : Word) :
    (if m.toNat = 0 then 0 else
      (evalBin .bvurem 512 (evalBin .bvmul 512 b.toNat a.toNat) m.toNat / 2 ^ 0) % 2 ^ (255 + 1 - 0))
      = (Evm.mulmod a b m).toNat := by
  unfold Evm.mulmod evalBin
  by_cases h : m.toNat = 0
  · simp [h]
  · have ha := a.isLt; have hb := b.isLt; have hm := m.isLt
    have h512 : (2:Nat)^512 = 2^256 * 2^256 := by rw [← Nat.pow_add]
    have hlt : b.toNat * a.toNat < 2 ^ 512 := by
      rw [h512]; exact Nat.mul_lt_mul'' hb ha
    have e4 : (b.toNat * a.toNat) % 2^512 = a.toNat * b.toNat := by
      rw [Nat.mod_eq_of_lt hlt, Nat.mul_comm]
    simp only [h, if_false, BitVec.toNat_ofNat, e4, Nat.pow_zero, Nat.div_one]

/-! ### comparisons -/

theorem op_lt (a b : Word) :
    (if evalCmp .bvult 256 a.toNat b.toNat then 1 else 0) = (Evm.lt a b).toNat := by
  simp [evalCmp, Evm.lt, ofBool_toNat]

theorem op_gt (a b : Word) :
    (if evalCmp .bvugt 256 a.toNat b.toNat then 1 else 0) = (Evm.gt a b).toNat := by
  simp [evalCmp, Evm.gt, ofBool_toNat]

theorem op_slt (a b : Word) :
    (if evalCmp .bvslt 256 a.toNat b.toNat then 1 else 0) = (Evm.slt a b).toNat := by
  simp [evalCmp, Evm.slt, ofBool_toNat, toSigned]

theorem op_sgt (a b : Word) :
    (if evalCmp .bvsgt 256 a.toNat b.toNat then 1 else 0) = (Evm.sgt a b).toNat := by
  simp [evalCmp, Evm.sgt, ofBool_toNat, toSigned]

theorem op_eq (a b : Word) :
    (if a.toNat = b.toNat then 1 else 0) = (Evm.eq a b).toNat := by
  simp [Evm.eq, ofBool_toNat, BitVec.toNat_inj]

theorem op_iszero (a : Word) :
    (if a.toNat = 0 then 1 else 0) = (Evm.iszero a).toNat := by
  simp [Evm.iszero, ofBool_toNat]

/-! ### bitwise -/

theorem op_and (a b : Word) : evalBin .bvand 256 a.toNat b.toNat = (Evm.and a b).toNat := by
  simp [evalBin, Evm.and]

theorem op_or (a b : Word) : evalBin .bvor 256 a.toNat b.toNat = (Evm.or a b).toNat := by
  simp [evalBin, Evm.or]

theorem op_xor (a b : Word) : evalBin .bvxor 256 a.toNat b.toNat = (Evm.xor a b).toNat := by
  simp [evalBin, Evm.xor]

theorem op_not (a : Word) : 2 ^ 256 - 1 - a.toNat = (Evm.not a).toNat := by
  simp [Evm.not, BitVec.toNat_not]

/-! ### shifts -/

theorem op_shl (s x : Word) : evalBin .bvshl 256 x.toNat s.toNat = (Evm.shl s x).toNat := by
  unfold evalBin Evm.shl
  by_cases h : 256 ≤ s.toNat <;> simp [h]

theorem op_shr (s x : Word) : evalBin .bvlshr 256 x.toNat s.toNat = (Evm.shr s x).toNat := by
  unfold evalBin Evm.shr
  by_cases h : 256 ≤ s.toNat
  · simp [h]
  · simp only [h, if_false, BitVec.toNat_ofNat]
    exact (Nat.mod_eq_of_lt (Nat.lt_of_le_of_lt (Nat.div_le_self _ _) x.isLt)).symm

theorem op_sar (s x : Word) : evalBin .bvashr 256 x.toNat s.toNat = (Evm.sar s x).toNat := by
  unfold evalBin Evm.sar
  simp only [BitVec.ofNat_toNat, BitVec.setWidth_eq]
  congr 1
  apply BitVec.eq_of_toInt_eq
  have key : (x.sshiftRight s.toNat).toInt = x.toInt / 2 ^ s.toNat := by
    rw [BitVec.toInt_sshiftRight, Int.shiftRight_eq_div_pow, Int.natCast_pow]; rfl
  have hx := BitVec.toInt_lt (x := x); have hx' := BitVec.le_toInt (x := x)
  by_cases h : 256 ≤ s.toNat
  · simp only [h, if_true]
    rw [key]
    have hpow : (2:Int) ^ 256 ≤ 2 ^ s.toNat := by
      have := Nat.pow_le_pow_right (n := 2) (by omega) h
      exact_mod_cast this
    by_cases hneg : x.toInt < 0
    · simp only [hneg, if_true, BitVec.toInt_allOnes]
      exact Int.ediv_eq_neg_one_of_neg_of_le hneg (by omega)
    · simp only [hneg, if_false]
      rw [Int.ediv_eq_zero_of_lt (by omega) (by omega)]
      rfl
  · simp only [h, if_false]
    rw [BitVec.toInt_ofInt, ← key, BitVec.toInt_bmod_cancel]

/-! ### byte -/

theorem op_byte (i x : Word) :
    (if evalCmp .bvult 256 i.toNat 32 then
        evalBin .bvand 256
          (evalBin .bvlshr 256 x.toNat (evalBin .bvsub 256 248 (evalBin .bvmul 256 i.toNat 8))) 255
      else 0) = (Evm.byte i x).toNat := by
  unfold Evm.byte evalCmp
  by_cases h : 32 ≤ i.toNat
  · have : ¬ i.toNat < 32 := by omega
    simp [h, this]
  · have hi : i.toNat < 32 := by omega
    simp only [h, hi, decide_true, if_true, if_false]
    have hmul : evalBin .bvmul 256 i.toNat 8 = i.toNat * 8 := by
      simp only [evalBin]; omega
    have hsub : evalBin .bvsub 256 248 (i.toNat * 8) = 248 - i.toNat * 8 := by
      simp only [evalBin]; omega
    rw [hmul, hsub]
    have hlt : ¬ 256 ≤ 248 - i.toNat * 8 := by omega
    simp only [evalBin, hlt, if_false]
    have h255 : (255 : Nat) = 2 ^ 8 - 1 := by decide
    rw [h255, Nat.and_two_pow_sub_one_eq_mod, BitVec.toNat_ofNat]
    have hpow : 2 ^ (248 - i.toNat * 8) = 256 ^ (31 - i.toNat) := by
      have h8 : ∀ k, (256 : Nat) ^ k = 2 ^ (8 * k) := fun k => by rw [Nat.pow_mul]
      rw [h8]; congr 1; omega
    rw [hpow]
    have : x.toNat / 256 ^ (31 - i.toNat) % 2 ^ 8 < 2 ^ 256 := by
      have : x.toNat / 256 ^ (31 - i.toNat) % 2 ^ 8 < 2 ^ 8 := Nat.mod_lt _ (by decide)
      exact Nat.lt_trans this (by decide)
    rw [Nat.mod_eq_of_lt this]

/-! ### signextend -/

theorem bmod_mul_pow (x : Int) (h P : Nat) (hh : 0 < h) (hP : 0 < P) :
    Int.bmod (x * P) (2 * h * P) = Int.bmod x (2 * h) * P := by
  have hM : 0 < 2 * h := by omega
  have hMP : 0 < 2 * h * P := Nat.mul_pos hM hP
  have h1 := Int.le_bmod (x := x) hM
  have h2 := Int.bmod_lt (x := x) hM
  have h3 : ((2 * h : Nat) : Int) ∣ (Int.bmod x (2 * h) - x) := Int.dvd_bmod_sub_self
  generalize Int.bmod x (2 * h) = r at *
  rw [Int.bmod_eq_iff hMP]
  have hPi : (0 : Int) ≤ (P : Int) := by omega
  have e1 : ((2 * h * P : Nat) : Int) / 2 = (h : Int) * P := by
    rw [Nat.mul_assoc, Int.natCast_mul]
    have := Int.natCast_mul h P
    omega
  have e2 : (((2 * h * P : Nat) : Int) + 1) / 2 = (h : Int) * P := by
    rw [Nat.mul_assoc, Int.natCast_mul]
    have := Int.natCast_mul h P
    omega
  rw [e1, e2]
  refine ⟨?_, ?_, ?_⟩
  · have : -(h : Int) ≤ r := by omega
    have := Int.mul_le_mul_of_nonneg_right this hPi
    rwa [Int.neg_mul] at this
  · have : r < (h : Int) := by omega
    exact Int.mul_lt_mul_of_pos_right this (by omega)
  · rw [← Int.sub_mul, Int.natCast_mul]
    exact Int.mul_dvd_mul_right _ h3

theorem op_signextend (b x : Word) :
    (if evalCmp .bvult 256 b.toNat 31 then
        evalBin .bvashr 256
          (evalBin .bvshl 256 x.toNat (evalBin .bvmul 256 (evalBin .bvsub 256 31 b.toNat) 8))
          (evalBin .bvmul 256 (evalBin .bvsub 256 31 b.toNat) 8)
      else x.toNat) = (Evm.signextend b x).toNat := by
  unfold Evm.signextend evalCmp
  by_cases h : 31 ≤ b.toNat
  · have : ¬ b.toNat < 31 := by omega
    simp [h, this]
  · have hb : b.toNat < 31 := by omega
    simp only [h, hb, decide_true, if_true, if_false]
    have hsh : evalBin .bvmul 256 (evalBin .bvsub 256 31 b.toNat) 8 = (31 - b.toNat) * 8 := by
      simp only [evalBin]; omega
    rw [hsh]
    generalize hk : (31 - b.toNat) * 8 = k
    have hm : 8 * (b.toNat + 1) = (256 - k - 1) + 1 := by omega
    rw [hm]
    generalize hm' : 256 - k - 1 = m'
    have hk256 : 256 = (m' + 1) + k := by omega
    have hlt : ¬ 256 ≤ k := by omega
    simp only [evalBin, hlt, if_false]
    congr 1
    apply BitVec.eq_of_toInt_eq
    have hP : 0 < 2 ^ k := Nat.pow_pos (by decide)
    have hh : 0 < 2 ^ m' := Nat.pow_pos (by decide)
    have hpow : 2 ^ 256 = 2 * 2 ^ m' * 2 ^ k := by
      rw [hk256, Nat.pow_add, Nat.pow_succ]; rw [Nat.mul_comm (2 ^ m') 2]
    rw [BitVec.toInt_sshiftRight, Int.shiftRight_eq_div_pow, BitVec.toInt_ofNat',
      Int.natCast_emod, Int.emod_bmod, Int.natCast_mul, hpow, bmod_mul_pow _ _ _ hh hP,
      Int.mul_ediv_cancel _ (by omega), BitVec.toInt_ofInt]
    have e : 2 ^ (m' + 1) = 2 * 2 ^ m' := by rw [Nat.pow_succ, Nat.mul_comm]
    rw [e]
    have h1 := Int.le_bmod (x := (x.toNat : Int)) (m := 2 * 2 ^ m') (by omega)
    have h2 := Int.bmod_lt (x := (x.toNat : Int)) (m := 2 * 2 ^ m') (by omega)
    have hle : 2 * 2 ^ m' ≤ 2 * 2 ^ m' * 2 ^ k := Nat.le_mul_of_pos_right _ hP
    generalize Int.bmod (x.toNat : Int) (2 * 2 ^ m') = r at *
    symm
    apply Int.bmod_eq_of_le <;> omega

end Smt
end EtkVerif
