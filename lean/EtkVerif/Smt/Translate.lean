/-
Model of `etk_analyze::sym::Z3Visit::exit` (`Expr::to_z3`): expression tree →
solver term, one `Sym` at a time, in the visitor's post-order, threading the
solver context's fresh-constant counter.
-/
import EtkVerif.Smt.Term
import EtkVerif.Sym.Basic
namespace EtkVerif
namespace Smt

def w256 (v : Nat) : Term := .lit 256 v
def zero : Term := w256 0
def one : Term := w256 1
def boolToBv (c : BTerm) : Term := .ite c one zero
/-- `rhs._eq(&zero).ite(&zero, &x)` -/
def guardZero (d x : Term) : Term := .ite (.cmp .eq d zero) zero x

inductive TrErr | arity
  deriving Repr, DecidableEq

/-- What `exit` builds for a symbol, given the terms of its children (in tree
order) and the fresh counter.  Returns the term and the new counter. -/
def trNode (s : Sym) (args : List Term) (n : Nat) : Except TrErr (Term × Nat) :=
  let freshC (f : FName) : Except TrErr (Term × Nat) := .ok (.fresh f n, n + 1)
  match s, args with
  | .const v, [] => .ok (w256 v, n)
  | .var i, [] => .ok (.named (.var i), n)
  | .getpc p, [] => .ok (w256 p, n)
  | .address, [] => .ok (.named .address, n)
  | .origin, [] => .ok (.named .origin, n)
  | .caller, [] => .ok (.named .caller, n)
  | .callvalue, [] => .ok (.named .callvalue, n)
  | .calldatasize, [] => .ok (.named .calldatasize, n)
  | .codesize, [] => .ok (.named .codesize, n)
  | .gasprice, [] => .ok (.named .gasprice, n)
  | .coinbase, [] => .ok (.named .coinbase, n)
  | .timestamp, [] => .ok (.named .timestamp, n)
  | .number, [] => .ok (.named .number, n)
  | .difficulty, [] => .ok (.named .difficulty, n)
  | .gaslimit, [] => .ok (.named .gaslimit, n)
  | .chainid, [] => .ok (.named .chainid, n)
  | .basefee, [] => .ok (.named .basefee, n)
  | .returndatasize, [] => freshC .returndatasize
  | .selfbalance, [] => freshC .selfbalance
  | .msize, [] => freshC .msize
  | .gas, [] => freshC .gas
  | .add, [l, r] => .ok (.bin .bvadd l r, n)
  | .sub, [l, r] => .ok (.bin .bvsub l r, n)
  | .mul, [l, r] => .ok (.bin .bvmul l r, n)
  | .div, [l, r] => .ok (guardZero r (.bin .bvudiv l r), n)
  | .sdiv, [l, r] => .ok (guardZero r (.bin .bvsdiv l r), n)
  | .mod, [l, r] => .ok (guardZero r (.bin .bvurem l r), n)
  | .smod, [l, r] => .ok (guardZero r (.bin .bvsrem l r), n)
  | .exp, [l, r] => .ok (.powInt l r, n)
  | .lt, [l, r] => .ok (boolToBv (.cmp .bvult l r), n)
  | .gt, [l, r] => .ok (boolToBv (.cmp .bvugt l r), n)
  | .slt, [l, r] => .ok (boolToBv (.cmp .bvslt l r), n)
  | .sgt, [l, r] => .ok (boolToBv (.cmp .bvsgt l r), n)
  | .eq, [l, r] => .ok (boolToBv (.cmp .eq l r), n)
  | .and, [l, r] => .ok (.bin .bvand l r, n)
  | .or, [l, r] => .ok (.bin .bvor l r, n)
  | .xor, [l, r] => .ok (.bin .bvxor l r, n)
  | .shl, [l, r] => .ok (.bin .bvshl r l, n)
  | .shr, [l, r] => .ok (.bin .bvlshr r l, n)
  | .sar, [l, r] => .ok (.bin .bvashr r l, n)
  | .not, [a] => .ok (.bvnot a, n)
  | .iszero, [a] => .ok (boolToBv (.cmp .eq a zero), n)
  | .keccak256, [_, _] => freshC .keccak256
  | .signextend, [size, value] =>
      let shift := Term.bin .bvmul (.bin .bvsub (w256 31) size) (w256 8)
      .ok (.ite (.cmp .bvult size (w256 31)) (.bin .bvashr (.bin .bvshl value shift) shift) value, n)
  | .calldataload, [a] => .ok (.app .calldataload a, n)
  | .blockhash, [a] => .ok (.app .blockhash a, n)
  | .extcodesize, [_] => freshC .extcodesize
  | .extcodehash, [_] => freshC .extcodehash
  | .mload, [_] => freshC .mload
  | .sload, [_] => freshC .sload
  | .balance, [_] => freshC .balance
  | .addmod, [l, r, m] =>
      .ok (guardZero m (.extract 255 0 (.bin .bvurem (.bin .bvadd (.zext 1 r) (.zext 1 l)) (.zext 1 m))), n)
  | .mulmod, [l, r, m] =>
      .ok (guardZero m (.extract 255 0 (.bin .bvurem (.bin .bvmul (.zext 256 r) (.zext 256 l)) (.zext 256 m))), n)
  | .create, [_, _, _] => freshC .create
  | .create2, [_, _, _, _] => freshC .create2
  | .callcode, [_, _, _, _, _, _, _] => freshC .callcode
  | .call, [_, _, _, _, _, _, _] => freshC .call
  | .staticcall, [_, _, _, _, _, _] => freshC .staticcall
  | .delegatecall, [_, _, _, _, _, _] => freshC .delegatecall
  | .byte, [position, value] =>
      let shift := Term.bin .bvsub (w256 248) (.bin .bvmul position (w256 8))
      .ok (.ite (.cmp .bvult position (w256 32)) (.bin .bvand (.bin .bvlshr value shift) (w256 255)) zero, n)
  | _, _ => .error .arity     -- `arguments.pop().unwrap()` on an ill-formed expression

mutual
/-- `Expr::to_z3` on a tree, starting with fresh counter `n`. -/
def toTerm : Tree → Nat → Except TrErr (Term × Nat)
  | .node s _ args, n =>
    match toTerms args n with
    | .error e => .error e
    | .ok (ts, n') => trNode s ts n'
def toTerms : Trees → Nat → Except TrErr (List Term × Nat)
  | .nil, n => .ok ([], n)
  | .cons h t, n =>
    match toTerm h n with
    | .error e => .error e
    | .ok (x, n') =>
      match toTerms t n' with
      | .error e => .error e
      | .ok (xs, n'') => .ok (x :: xs, n'')
end

end Smt
end EtkVerif
