/-
T-tr: the solver term built for an expression denotes, under the interpretation
an execution induces, the value the expression evaluates to — for every
operand value (all 2^256 of them per operand), one lemma per `Sym`.
-/
import EtkVerif.Smt.Translate
import EtkVerif.Sym.Eval
namespace EtkVerif
namespace Smt
open Evm

/-- The interpretation agrees with the execution's environment `E`, its entry
stack binding `ρ`, and gives the unspecified integer power `0^0` the value 1
(Z3 leaves it unspecified, so this is an admissible interpretation). -/
structure Agrees (I : Interp) (E : Env) (ρ : Nat → Word) : Prop where
  var : ∀ i, I.named (.var i) % 2 ^ 256 = (ρ i).toNat
  address : I.named .address % 2 ^ 256 = E.address.toNat
  origin : I.named .origin % 2 ^ 256 = E.origin.toNat
  caller : I.named .caller % 2 ^ 256 = E.caller.toNat
  callvalue : I.named .callvalue % 2 ^ 256 = E.callvalue.toNat
  calldatasize : I.named .calldatasize % 2 ^ 256 = E.calldatasize.toNat
  codesize : I.named .codesize % 2 ^ 256 = E.codesize.toNat
  gasprice : I.named .gasprice % 2 ^ 256 = E.gasprice.toNat
  coinbase : I.named .coinbase % 2 ^ 256 = E.coinbase.toNat
  timestamp : I.named .timestamp % 2 ^ 256 = E.timestamp.toNat
  number : I.named .number % 2 ^ 256 = E.number.toNat
  difficulty : I.named .difficulty % 2 ^ 256 = E.difficulty.toNat
  gaslimit : I.named .gaslimit % 2 ^ 256 = E.gaslimit.toNat
  chainid : I.named .chainid % 2 ^ 256 = E.chainid.toNat
  basefee : I.named .basefee % 2 ^ 256 = E.basefee.toNat
  calldataload : ∀ x, x < 2 ^ 256 → I.uf .calldataload x % 2 ^ 256 = (E.calldataload (BitVec.ofNat 256 x)).toNat
  blockhash : ∀ x, x < 2 ^ 256 → I.uf .blockhash x % 2 ^ 256 = (E.blockhash (BitVec.ofNat 256 x)).toNat
  pow00 : I.pow00 = 1

/-- T-tr.  For a well-formed tree translated with fresh counter `n`: translation
succeeds, uses the fresh indices `[n, n')`, has width 256, and there is an
assignment `vals` to those indices (the values the state-dependent reads
returned) such that every interpretation that agrees with the execution and
with `vals` on `[n, n')` evaluates the term to the expression's value. -/
theorem toTerm_sound (E : Env) (ω : Nat → Word) (ρ : Nat → Word) (e : Tree) (hwf : e.wf = true) (n : Nat) :
    ∃ x n', toTerm e n = .ok (x, n') ∧ n ≤ n' ∧ x.width = 256 ∧
      ∃ vals : Nat → Nat, ∀ I : Interp, Agrees I E ρ →
        (∀ k, n ≤ k → k < n' → I.fresh k = vals k) →
        x.eval I = (Tree.eval E ω ρ e).toNat := by
  sorry

end Smt
end EtkVerif
