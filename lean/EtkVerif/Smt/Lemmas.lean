/-
T-tr: the solver term built for an expression denotes, under the interpretation
an execution induces, the value the expression evaluates to — for every
operand value (all 2^256 of them per operand), one lemma per `Sym`.
-/
import EtkVerif.Smt.OpLemmas
namespace EtkVerif
namespace Smt
open Evm

/-- The interpretation agrees with the execution's environment `E`, its entry
stack binding `ρ`, and gives the unspecified integer power `0^0` the value 1
(Z3 leaves it unspecified, so this is an admissible interpretation). -/
structure Agrees (I : Interp) (E : Env) (ρ : Nat → Word) : Prop where
  var : ∀ i, I.named (.var i) % 2 ^ 256 = (ρ i).toNat
  address : I.named .address % 2 ^ 256 = E.address.toNat
  origin : I.named .origin % 2 ^ 256 = E.origin.toNat
  caller : I.named .caller % 2 ^ 256 = E.caller.toNat
  callvalue : I.named .callvalue % 2 ^ 256 = E.callvalue.toNat
  calldatasize : I.named .calldatasize % 2 ^ 256 = E.calldatasize.toNat
  codesize : I.named .codesize % 2 ^ 256 = E.codesize.toNat
  gasprice : I.named .gasprice % 2 ^ 256 = E.gasprice.toNat
  coinbase : I.named .coinbase % 2 ^ 256 = E.coinbase.toNat
  timestamp : I.named .timestamp % 2 ^ 256 = E.timestamp.toNat
  number : I.named .number % 2 ^ 256 = E.number.toNat
  difficulty : I.named .difficulty % 2 ^ 256 = E.difficulty.toNat
  gaslimit : I.named .gaslimit % 2 ^ 256 = E.gaslimit.toNat
  chainid : I.named .chainid % 2 ^ 256 = E.chainid.toNat
  basefee : I.named .basefee % 2 ^ 256 = E.basefee.toNat
  calldataload : ∀ x, x < 2 ^ 256 → I.uf .calldataload x % 2 ^ 256 = (E.calldataload (BitVec.ofNat 256 x)).toNat
  blockhash : ∀ x, x < 2 ^ 256 → I.uf .blockhash x % 2 ^ 256 = (E.blockhash (BitVec.ofNat 256 x)).toNat
  pow00 : I.pow00 = 1

/-! ### evaluation of the building blocks -/

theorem w256_eval (I : Interp) (v : Nat) : (w256 v).eval I = v % 2 ^ 256 := by
  simp only [w256, Term.eval]

theorem w256_width (v : Nat) : (w256 v).width = 256 := rfl
theorem zero_eval (I : Interp) : zero.eval I = 0 := by simp [zero, w256_eval]
theorem one_eval (I : Interp) : one.eval I = 1 := by simp [one, w256_eval]
theorem zero_width : zero.width = 256 := rfl
theorem one_width : one.width = 256 := rfl

theorem evalCmp_eq (w a b : Nat) : (evalCmp .eq w a b = true) = (a = b) := by
  simp [evalCmp]

theorem evalAll_length (E : Env) (ω ρ : Nat → Word) :
    (es : Trees) → (Tree.evalAll E ω ρ es).length = es.length
  | .nil => rfl
  | .cons _ t => by simp [Tree.evalAll, Trees.length, evalAll_length E ω ρ t]

/-! ### one node -/

theorem len2 {α} {l : List α} (h : l.length = 2) : ∃ a b, l = [a, b] := by
  rcases l with _ | ⟨a, _ | ⟨b, _ | ⟨c, t⟩⟩⟩ <;> simp at h
  exact ⟨a, b, rfl⟩

theorem len3 {α} {l : List α} (h : l.length = 3) : ∃ a b c, l = [a, b, c] := by
  rcases l with _ | ⟨a, _ | ⟨b, _ | ⟨c, _ | ⟨d, t⟩⟩⟩⟩ <;> simp at h
  exact ⟨a, b, c, rfl⟩

/-- Volatile symbols translate to a fresh constant … -/
theorem trNode_volatile (s : Sym) (hv : s.volatile = true) (xs : List Term) (n : Nat)
    (hlen : xs.length = s.arity) : ∃ f, trNode s xs n = .ok (.fresh f n, n + 1) := by
  cases s <;> simp [Sym.volatile] at hv
  all_goals
    simp only [Sym.arity] at hlen
    rcases xs with _ | ⟨x1, _ | ⟨x2, _ | ⟨x3, _ | ⟨x4, _ | ⟨x5, _ | ⟨x6, _ | ⟨x7, _ | ⟨x8, t⟩⟩⟩⟩⟩⟩⟩⟩
    all_goals first | (simp at hlen; done) | exact ⟨_, rfl⟩

/-- … and mean `ω tag`. -/
theorem apply_volatile (E : Env) (ω ρ : Nat → Word) (tag : Nat) (s : Sym) (hv : s.volatile = true)
    (vs : List Word) : s.apply E ω ρ tag vs = ω tag := by
  cases s
  all_goals first | (simp [Sym.volatile] at hv; done) | skip
  all_goals rfl

/-- Non-volatile leaves: literals, variables and environment constants. -/
theorem pure0 (E : Env) (ω ρ : Nat → Word) (tag n : Nat) (s : Sym) (h : s.arity = 0)
    (hv : s.volatile = false) :
    ∃ x, trNode s [] n = .ok (x, n) ∧ x.width = 256 ∧
      ∀ I, Agrees I E ρ → x.eval I = (s.apply E ω ρ tag []).toNat := by
  cases s
  all_goals first | (simp [Sym.arity] at h; done) | skip
  all_goals first | (simp [Sym.volatile] at hv; done) | skip
  all_goals refine ⟨_, rfl, rfl, ?_⟩
  all_goals intro I hA
  all_goals simp only [Term.eval, w256_eval]
  case const v => exact (BitVec.toNat_ofNat v 256).symm
  case getpc p => exact (BitVec.toNat_ofNat p 256).symm
  case var i => exact hA.var i
  case address => exact hA.address
  case origin => exact hA.origin
  case caller => exact hA.caller
  case callvalue => exact hA.callvalue
  case calldatasize => exact hA.calldatasize
  case codesize => exact hA.codesize
  case gasprice => exact hA.gasprice
  case coinbase => exact hA.coinbase
  case timestamp => exact hA.timestamp
  case number => exact hA.number
  case difficulty => exact hA.difficulty
  case gaslimit => exact hA.gaslimit
  case chainid => exact hA.chainid
  case basefee => exact hA.basefee

/-- Non-volatile unary symbols. -/
theorem pure1 (E : Env) (ω ρ : Nat → Word) (tag n : Nat) (s : Sym) (h : s.arity = 1)
    (hv : s.volatile = false) (l : Term) (a : Word) (hl : l.width = 256) :
    ∃ x, trNode s [l] n = .ok (x, n) ∧ x.width = 256 ∧
      ∀ I, Agrees I E ρ → l.eval I = a.toNat →
        x.eval I = (s.apply E ω ρ tag [a]).toNat := by
  cases s
  all_goals first | (simp [Sym.arity] at h; done) | skip
  all_goals first | (simp [Sym.volatile] at hv; done) | skip
  all_goals refine ⟨_, rfl, ?_, ?_⟩
  all_goals first
    | (simp only [Term.width, boolToBv, one_width, hl]; done)
    | skip
  all_goals intro I hA h1
  all_goals simp only [Term.eval, BTerm.eval, boolToBv, zero_eval, one_eval, hl, h1, evalCmp_eq]
  case iszero => exact op_iszero a
  case not => exact op_not a
  case calldataload =>
    have := hA.calldataload a.toNat a.isLt
    rw [BitVec.ofNat_toNat, BitVec.setWidth_eq] at this
    exact this
  case blockhash =>
    have := hA.blockhash a.toNat a.isLt
    rw [BitVec.ofNat_toNat, BitVec.setWidth_eq] at this
    exact this

/-- Non-volatile binary symbols. -/
theorem pure2 (E : Env) (ω ρ : Nat → Word) (tag n : Nat) (s : Sym) (h : s.arity = 2)
    (hv : s.volatile = false) (l r : Term) (a b : Word) (hl : l.width = 256) (hr : r.width = 256) :
    ∃ x, trNode s [l, r] n = .ok (x, n) ∧ x.width = 256 ∧
      ∀ I, Agrees I E ρ → l.eval I = a.toNat → r.eval I = b.toNat →
        x.eval I = (s.apply E ω ρ tag [a, b]).toNat := by
  cases s
  all_goals first | (simp [Sym.arity] at h; done) | skip
  all_goals first | (simp [Sym.volatile] at hv; done) | skip
  all_goals refine ⟨_, rfl, ?_, ?_⟩
  all_goals first
    | (simp only [Term.width, guardZero, boolToBv, zero_width, one_width, hl, hr]; done)
    | skip
  all_goals intro I hA h1 h2
  all_goals simp only [Term.eval, BTerm.eval, guardZero, boolToBv, zero_eval, one_eval, w256_width,
    w256_eval, Term.width, hl, hr, h1, h2, evalCmp_eq]
  case add => exact op_add a b
  case mul => exact op_mul a b
  case sub => exact op_sub a b
  case div => exact op_div a b
  case sdiv => exact op_sdiv a b
  case mod => exact op_mod a b
  case smod => exact op_smod a b
  case exp => rw [hA.pow00]; exact op_exp a b
  case lt => exact op_lt a b
  case gt => exact op_gt a b
  case slt => exact op_slt a b
  case sgt => exact op_sgt a b
  case eq => exact op_eq a b
  case and => exact op_and a b
  case or => exact op_or a b
  case xor => exact op_xor a b
  case byte => exact op_byte a b
  case shl => exact op_shl a b
  case shr => exact op_shr a b
  case sar => exact op_sar a b
  case signextend => exact op_signextend a b

/-- Non-volatile ternary symbols. -/
theorem pure3 (E : Env) (ω ρ : Nat → Word) (tag n : Nat) (s : Sym) (h : s.arity = 3)
    (hv : s.volatile = false) (l r m : Term) (a b c : Word)
    (_hl : l.width = 256) (hr : r.width = 256) (hm : m.width = 256) :
    ∃ x, trNode s [l, r, m] n = .ok (x, n) ∧ x.width = 256 ∧
      ∀ I, Agrees I E ρ → l.eval I = a.toNat → r.eval I = b.toNat → m.eval I = c.toNat →
        x.eval I = (s.apply E ω ρ tag [a, b, c]).toNat := by
  cases s
  all_goals first | (simp [Sym.arity] at h; done) | skip
  all_goals first | (simp [Sym.volatile] at hv; done) | skip
  all_goals refine ⟨_, rfl, ?_, ?_⟩
  all_goals first
    | (simp only [Term.width, guardZero, zero_width]; done)
    | skip
  all_goals intro I hA h1 h2 h3
  all_goals simp only [Term.eval, BTerm.eval, guardZero, zero_eval, Term.width, hr, hm, h1, h2, h3,
    evalCmp_eq]
  case addmod => exact op_addmod a b c
  case mulmod => exact op_mulmod a b c

theorem arity_of_not_volatile (s : Sym) (hv : s.volatile = false) :
    s.arity = 0 ∨ s.arity = 1 ∨ s.arity = 2 ∨ s.arity = 3 := by
  cases s
  all_goals first | (simp [Sym.volatile] at hv; done) | (simp [Sym.arity]; done)

theorem trNode_sound (E : Env) (ω ρ : Nat → Word) (s : Sym) (tag : Nat) (xs : List Term)
    (vs : List Word) (n : Nat) (hlen : xs.length = s.arity) (hlen' : vs.length = s.arity)
    (hw : ∀ x ∈ xs, x.width = 256) :
    ∃ x n', trNode s xs n = .ok (x, n') ∧ n ≤ n' ∧ n' ≤ n + 1 ∧ x.width = 256 ∧
      ∀ I : Interp, Agrees I E ρ → xs.map (·.eval I) = vs.map (·.toNat) →
        (∀ k, n ≤ k → k < n' → I.fresh k = (ω tag).toNat) →
        x.eval I = (s.apply E ω ρ tag vs).toNat := by
  by_cases hv : s.volatile = true
  · obtain ⟨f, hf⟩ := trNode_volatile s hv xs n hlen
    refine ⟨_, _, hf, Nat.le_succ _, Nat.le_refl _, rfl, ?_⟩
    intro I _ _ hfr
    rw [apply_volatile E ω ρ tag s hv, Term.eval, hfr n (Nat.le_refl _) (Nat.lt_succ_self _)]
    exact Nat.mod_eq_of_lt (ω tag).isLt
  · have hv' : s.volatile = false := by simpa using hv
    rcases arity_of_not_volatile s hv' with h | h | h | h
    · rw [h] at hlen hlen'
      obtain rfl := List.length_eq_zero_iff.mp hlen
      obtain rfl := List.length_eq_zero_iff.mp hlen'
      obtain ⟨x, htr, hwx, hev⟩ := pure0 E ω ρ tag n s h hv'
      exact ⟨x, n, htr, Nat.le_refl _, Nat.le_succ _, hwx, fun I hA _ _ => hev I hA⟩
    · rw [h] at hlen hlen'
      obtain ⟨l, rfl⟩ := List.length_eq_one_iff.mp hlen
      obtain ⟨a, rfl⟩ := List.length_eq_one_iff.mp hlen'
      obtain ⟨x, htr, hwx, hev⟩ := pure1 E ω ρ tag n s h hv' l a (hw l (by simp))
      refine ⟨x, n, htr, Nat.le_refl _, Nat.le_succ _, hwx, fun I hA hmap _ => hev I hA ?_⟩
      simpa using hmap
    · rw [h] at hlen hlen'
      obtain ⟨l, r, rfl⟩ := len2 hlen
      obtain ⟨a, b, rfl⟩ := len2 hlen'
      obtain ⟨x, htr, hwx, hev⟩ :=
        pure2 E ω ρ tag n s h hv' l r a b (hw l (by simp)) (hw r (by simp))
      refine ⟨x, n, htr, Nat.le_refl _, Nat.le_succ _, hwx, fun I hA hmap _ => ?_⟩
      have hmap' : l.eval I = a.toNat ∧ r.eval I = b.toNat := by simpa using hmap
      exact hev I hA hmap'.1 hmap'.2
    · rw [h] at hlen hlen'
      obtain ⟨l, r, m, rfl⟩ := len3 hlen
      obtain ⟨a, b, c, rfl⟩ := len3 hlen'
      obtain ⟨x, htr, hwx, hev⟩ :=
        pure3 E ω ρ tag n s h hv' l r m a b c (hw l (by simp)) (hw r (by simp)) (hw m (by simp))
      refine ⟨x, n, htr, Nat.le_refl _, Nat.le_succ _, hwx, fun I hA hmap _ => ?_⟩
      have hmap' : l.eval I = a.toNat ∧ r.eval I = b.toNat ∧ m.eval I = c.toNat := by
        simpa using hmap
      exact hev I hA hmap'.1 hmap'.2.1 hmap'.2.2

/-! ### the induction over trees -/

mutual
theorem toTerm_sound_aux (E : Env) (ω ρ : Nat → Word) : (e : Tree) → e.wf = true → (n : Nat) →
    ∃ x n', toTerm e n = .ok (x, n') ∧ n ≤ n' ∧ x.width = 256 ∧
      ∃ vals : Nat → Nat, ∀ I : Interp, Agrees I E ρ →
        (∀ k, n ≤ k → k < n' → I.fresh k = vals k) →
        x.eval I = (Tree.eval E ω ρ e).toNat
  | .node s tag args, hwf, n => by
    have hwf' : args.length = s.arity ∧ Tree.wfAll args = true := by simpa [Tree.wf] using hwf
    obtain ⟨xs, n1, htr, hle, hlen, hw, vals, hvals⟩ := toTerms_sound_aux E ω ρ args hwf'.2 n
    obtain ⟨x, n2, hnode, hle2, hle3, hwx, hev⟩ :=
      trNode_sound E ω ρ s tag xs (Tree.evalAll E ω ρ args) n1 (by rw [hlen, hwf'.1])
        (by rw [evalAll_length, hwf'.1]) hw
    refine ⟨x, n2, ?_, by omega, hwx, fun k => if k < n1 then vals k else (ω tag).toNat, ?_⟩
    · simp only [toTerm, htr, hnode]
    · intro I hA hI
      rw [Tree.eval]
      apply hev I hA
      · apply hvals I hA
        intro k h1 h2
        have := hI k h1 (by omega)
        simpa [h2] using this
      · intro k h1 h2
        have := hI k (by omega) h2
        simpa [show ¬ k < n1 by omega] using this
theorem toTerms_sound_aux (E : Env) (ω ρ : Nat → Word) : (es : Trees) → Tree.wfAll es = true → (n : Nat) →
    ∃ xs n', toTerms es n = .ok (xs, n') ∧ n ≤ n' ∧ xs.length = es.length ∧
      (∀ x ∈ xs, x.width = 256) ∧
      ∃ vals : Nat → Nat, ∀ I : Interp, Agrees I E ρ →
        (∀ k, n ≤ k → k < n' → I.fresh k = vals k) →
        xs.map (·.eval I) = (Tree.evalAll E ω ρ es).map (·.toNat)
  | .nil, _, n => ⟨[], n, rfl, Nat.le_refl _, rfl, by simp, fun _ => 0, fun _ _ _ => rfl⟩
  | .cons h t, hwf, n => by
    have hwf' : h.wf = true ∧ Tree.wfAll t = true := by simpa [Tree.wfAll] using hwf
    obtain ⟨x, n1, htr, hle, hwx, vals1, hv1⟩ := toTerm_sound_aux E ω ρ h hwf'.1 n
    obtain ⟨xs, n2, htrs, hle2, hlen, hws, vals2, hv2⟩ := toTerms_sound_aux E ω ρ t hwf'.2 n1
    refine ⟨x :: xs, n2, ?_, by omega, by simp [Trees.length, hlen], ?_,
      fun k => if k < n1 then vals1 k else vals2 k, ?_⟩
    · simp only [toTerms, htr, htrs]
    · intro y hy
      rcases List.mem_cons.mp hy with rfl | hy
      · exact hwx
      · exact hws y hy
    · intro I hA hI
      have e1 := hv1 I hA (by
        intro k h1 h2
        have := hI k h1 (by omega)
        simpa [h2] using this)
      have e2 := hv2 I hA (by
        intro k h1 h2
        have := hI k (by omega) h2
        simpa [show ¬ k < n1 by omega] using this)
      simp only [List.map, Tree.evalAll, e1, e2]
end

/-- T-tr.  For a well-formed tree translated with fresh counter `n`: translation
succeeds, uses the fresh indices `[n, n')`, has width 256, and there is an
assignment `vals` to those indices (the values the state-dependent reads
returned) such that every interpretation that agrees with the execution and
with `vals` on `[n, n')` evaluates the term to the expression's value. -/
theorem toTerm_sound (E : Env) (ω : Nat → Word) (ρ : Nat → Word) (e : Tree) (hwf : e.wf = true) (n : Nat) :
    ∃ x n', toTerm e n = .ok (x, n') ∧ n ≤ n' ∧ x.width = 256 ∧
      ∃ vals : Nat → Nat, ∀ I : Interp, Agrees I E ρ →
        (∀ k, n ≤ k → k < n' → I.fresh k = vals k) →
        x.eval I = (Tree.eval E ω ρ e).toNat := by
  exact toTerm_sound_aux E ω ρ e hwf n

end Smt
end EtkVerif
