/- Driver command for the block annotator. -/
import EtkVerif.Driver.Util
import EtkVerif.Gen.OpTable
import EtkVerif.Annot.Model
namespace EtkVerif.Driver
open EtkVerif Annot

def showTree (t : Tree) : String := ".".intercalate (t.flatten.map Sym.name)

def showExit : Exit → String
  | .terminate => "term"
  | .fallThrough p => s!"fall:{p}"
  | .unconditional d => s!"jump:{showTree d}"
  | .branch c t f => s!"branch:{showTree c}:{showTree t}:{f}"

def showAnnotated (a : Annotated) : String :=
  let ins := ",".intercalate ((List.range a.inputs).map (fun i => toString (i + 1)))
  let outs := "|".intercalate (a.outputs.map showTree)
  s!"off={a.offset} size={a.size} jt={if a.jumpTarget then 1 else 0} in=[{ins}] out=[{outs}] exit={showExit a.exit}"

/-- `ann <offset> <hex>` -/
def cmdAnn (args : List String) : String :=
  match args with
  | [o, h] =>
    match o.toNat?, unhex h with
    | some off, some bytes =>
      let t := Gen.cancun
      let ops := (Disasm.decodeAll t bytes).1.map (·.2)
      if ops.isEmpty then "empty"
      else match annotate t ⟨off, ops⟩ with
        | .ok a => showAnnotated a
        | .error _ => "panic"
    | _, _ => "bad-op"
  | _ => "bad-op"

end EtkVerif.Driver
