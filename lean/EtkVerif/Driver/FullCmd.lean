/- Driver command: pseudo-random members of the WHOLE-language text family of `FullText.parse_full`, generated and rendered
by the model itself (`FullText.render`), for the correspondence run. -/
import EtkVerif.Driver.ProgCmd
import EtkVerif.Asm.FullText
namespace EtkVerif.Driver
open EtkVerif Asm Asm.Layout Asm.ExprText Asm.FullText

instance : Inhabited XTerm := ⟨.num .dec [48]⟩
instance : Inhabited XArgs := ⟨.none []⟩
instance : Inhabited Directive := ⟨.import_⟩
instance : Inhabited PChar := ⟨.plain 97⟩
instance : Inhabited XSeq := ⟨.mk (.num .dec [48]) .nil⟩
instance : Inhabited XRest := ⟨.nil⟩
instance : Inhabited XMore := ⟨.nil⟩

def xNum (s : Nat) : XTerm :=
  pick s [.num .dec (cp "0"), .num .dec (cp "7"), .num .dec (cp "255"), .num .hex (cp "ff"), .num .hex (cp "00Ab"),
          .num .bin (cp "101"), .num .oct (cp "17"), .num .dec (cp "65536")]

def xName (s : Nat) : List Nat := pick s [cp "f", cp "g_", cp "h2", cp "_k", cp "selector", cp "topicx"]
def xParam (s : Nat) : List Nat := pick s [cp "x", cp "y2", cp "p", cp "q"]
def xSig (s : Nat) : List Nat := pick s [cp "transfer(address,uint256)", cp "T()", cp "_a1(b)", cp "f(x,y,z)"]

-- generator code of the driver only (no theorem mentions it): `partial` spares the termination elaboration of the
-- five-way mutual recursion
mutual
partial def xTerm : Nat → Nat → XTerm
  | 0, s => xNum s
  | d + 1, s =>
    let r := (s / 256) % 16
    if r < 4 then xNum (lcg s)
    else if r < 6 then .label (genLabelName (lcg s))
    else if r < 8 then .var (xParam (lcg s))
    else if r < 9 then .neg (pick (lcg s) [cp "1", cp "30"])
    else if r < 10 then .selector (xSig (lcg s))
    else if r < 11 then .topic (xSig (lcg s))
    else if r < 14 then .call (xName (lcg s)) (genBlanks s) (xArgs d (lcg (lcg s)))
    else .paren (genBlanks (lcg s)) (xSeq d (lcg (lcg s))) (genBlanks (lcg s + 7))
partial def xSeq : Nat → Nat → XSeq
  | 0, s => .mk (xNum s) .nil
  | d + 1, s => .mk (xTerm d s) (xRest ((s / 4096) % 3) d (lcg s))
partial def xRest : Nat → Nat → Nat → XRest
  | 0, _, _ => .nil
  | k + 1, d, s => .cons (genBlanks s) (pick (lcg s) [.plus, .plus, .times, .minus, .divide]) (genBlanks (lcg s + 3)) (xTerm d (lcg (lcg s)))
      (xRest k d (lcg (lcg (lcg s))))
partial def xArgs : Nat → Nat → XArgs
  | 0, s => .none (genBlanks s)
  | d + 1, s =>
    let r := (s / 128) % 4
    if r == 0 then .none (genBlanks s)
    else .some (genBlanks s) (xSeq d (lcg s)) (genBlanks (lcg s + 1)) (xMore (r - 1) d (lcg (lcg s)))
partial def xMore : Nat → Nat → Nat → XMore
  | 0, _, _ => .nil
  | k + 1, d, s => .cons (genBlanks s) (xSeq d (lcg s)) (genBlanks (lcg s + 2)) (xMore k d (lcg (lcg s)))
end

def xMacroName (s : Nat) : List Nat := pick s [cp "m1", cp "_e", cp "inner", cp "pc", cp "stop2", cp "Zz", cp "push_all", cp "endx",
  cp "include_hexx", cp "importx", cp "end", cp "include_lib"]

def xBStmt (s : Nat) : BStmt :=
  let r := (s / 512) % 12
  if r < 3 then .ins (pick (lcg s) [⟨0x5b, []⟩, ⟨0x58, []⟩, ⟨0x60, [0]⟩, ⟨0x61, [0, 255]⟩, ⟨0x5f, []⟩, ⟨0x53, []⟩, ⟨0xa4, []⟩])
  else if r < 5 then .label (genLabelName (lcg s)) (pick s [[], [], [32]])
  else if r < 7 then .apush (genBlanks s) (xSeq 2 (lcg s)) (genBlanks (lcg s + 5))
  else if r < 9 then .pushE 32 (pick s [32, 9]) (xSeq 2 (lcg s))
  else .invoke (xMacroName (lcg s)) (genBlanks s) (xArgs 2 (lcg (lcg s)))

def xBody : Nat → Nat → List BLine
  | 0, _ => []
  | k + 1, s => ⟨genBlanks s, xBStmt (lcg s), genBlanks (lcg s + 1), genComment (lcg (lcg s)), (s / 64) % 7 == 0,
                 pick (lcg s + 9) [[], [], [⟨genBlanks s, genComment s, false⟩]]⟩ :: xBody k (lcg (lcg (lcg s)))

def xDecl (s : Nat) (name : List Nat) : Decl :=
  ⟨name, genBlanks s, pick (lcg s) [[], [(genBlanks s, cp "x", genBlanks (lcg s))],
                                    [([], cp "x", []), (genBlanks (lcg s), cp "y2", genBlanks s)],
                                    [([32], cp "p", []), ([], cp "q", [9]), ([], cp "x", [])]]⟩

def xPath (s : Nat) : List PChar :=
  pick s [[.plain 97], [.plain 97, .plain 47, .plain 98, .plain 46, .plain 101], [.plain 120, .backslash, .quote, .plain 121],
          [], [.plain 32, .plain 35, .plain 59, .plain 37]]

def xStmt (s : Nat) : FullText.Stmt :=
  let r := (s / 2048) % 16
  if r < 9 then .plain (xBStmt (lcg s))
  else if r < 11 then .directive (pick (lcg s) [.import_, .include, .includeHex]) (genBlanks s) (genBlanks (lcg s)) (xPath (lcg (lcg s)))
                         (genBlanks (lcg s + 4))
  else if r < 14 then .macroDef (pick s [[32], [9], [32, 32]]) (xDecl (lcg s) (xMacroName (lcg (lcg s)))) (genBlanks s) (genComment (lcg s))
                         ((s / 32) % 5 == 0) (pick (lcg s + 2) [[], [⟨[], none, false⟩]]) (xBody ((s / 8192) % 4) (lcg (lcg s) + 1))
                         (genBlanks (lcg s + 6))
  else .exprDef (pick s [[32], [9]]) (xDecl (lcg s) (xName (lcg (lcg s)))) (genBlanks s) ((s / 32) % 5 == 0) (genBlanks (lcg s))
         (xSeq 2 (lcg (lcg s) + 3)) (genBlanks (lcg s + 1)) ((s / 16) % 5 == 0) (genBlanks (lcg s + 2))

def xItems : Nat → Nat → List FullText.Item
  | 0, _ => []
  | k + 1, s => ⟨genBlanks s, xStmt (lcg s), genTermT (lcg (lcg s)) (k == 0)⟩ :: xItems k (lcg (lcg (lcg s)))

/-- `fullgen <seed> <n>` -/
def cmdFullGen (args : List String) : String :=
  match args with
  | [s, n] =>
    match s.toNat?, n.toNat? with
    | some s, some n =>
      let head : List BlankLine := pick s [[], [], [⟨[], some (cp " head ; pc"), false⟩]]
      let items := xItems n (lcg s)
      let text := FullText.render head items
      let bytes := (String.ofList (text.map Char.ofNat)).toUTF8.toList.map (·.toNat)
      let okNodes := match parseAsm text with
        | .ok ns => ns.length == items.length
        | .error _ => false
      s!"text={hx bytes} nodes={if okNodes then 1 else 0}"
    | _, _ => "bad-op"
  | _ => "bad-op"

end EtkVerif.Driver
