/- Driver commands for the hex adapters. -/
import EtkVerif.Driver.Util
import EtkVerif.Hex.Model
namespace EtkVerif.Driver
open EtkVerif Hex

/-- cyclic expansion of a schedule to `n` entries (empty stays empty) -/
def cyc (l : List Nat) (n : Nat) : List Nat :=
  if l.isEmpty then [] else (List.range n).map (fun i => l.getD (i % l.length) 0)

/-- `hexr <hex text> <chunks> <bufs>` -/
def cmdHexR (args : List String) : String :=
  match args with
  | [t, ch, bf] =>
    match unhex t with
    | none => "bad-op"
    | some text =>
      let n := text.length + 8
      match readAll n {} ⟨text, cyc (natList ch) n⟩ (cyc (natList bf) n) [] with
      | .ok bs => s!"ok {hx bs}"
      | .err bs => s!"err {hx bs}"
      | .outOfFuel => "loop"
  | _ => "bad-op"

/-- `hexw <hex bytes> <accepts> <sizes>` -/
def cmdHexW (args : List String) : String :=
  match args with
  | [d, ac, sz] =>
    match unhex d with
    | none => "bad-op"
    | some data =>
      let n := 5 * data.length + 16
      let (ok, sink, total) := writeLoop n data (cyc (natList ac) n) (cyc (natList sz) n) [] 0
      let status := if !ok then "err" else if total < data.length then "stall" else "ok"
      s!"{status} {hx sink} {total}"
  | _ => "bad-op"

end EtkVerif.Driver
