/- `etkmodel`: line-protocol driver running the executable models. -/
import EtkVerif.Driver.Basic
import EtkVerif.Driver.HexCmd
import EtkVerif.Driver.AnnCmd
import EtkVerif.Driver.SmtCmd
import EtkVerif.Driver.CfgCmd
import EtkVerif.Driver.AsmCmd
import EtkVerif.Driver.FsCmd
import EtkVerif.Driver.LstCmd
import EtkVerif.Driver.LayCmd
import EtkVerif.Driver.ProgCmd
import EtkVerif.Driver.FullCmd
open EtkVerif.Driver

def dispatch (line : String) : String :=
  match line.splitOn " " with
  | cmd :: args =>
    if cmd == "dis" then cmdDis args
    else if cmd == "sep" then cmdSep args
    else if cmd == "ops" then cmdOps args
    else if cmd == "hexr" then cmdHexR args
    else if cmd == "hexw" then cmdHexW args
    else if cmd == "ann" then cmdAnn args
    else if cmd == "smt" then cmdSmt args
    else if cmd == "cfg" then cmdCfg args
    else if cmd == "asm" then cmdAsm args
    else if cmd == "asmspec" then cmdAsmSpec args
    else if cmd == "asmfs" then cmdAsmFs args
    else if cmd == "asmfsr" then cmdAsmFsR args
    else if cmd == "lst" then cmdLst args
    else if cmd == "lay" then cmdLay args
    else if cmd == "proggen" then cmdProgGen args
    else if cmd == "fullgen" then cmdFullGen args
    else s!"bad-op {cmd}"
  | [] => "bad-op"

partial def loop (h : IO.FS.Stream) (out : IO.FS.Stream) : IO Unit := do
  let line ← h.getLine
  if line.isEmpty then return ()
  let l := line.trimAsciiEnd.toString
  if !l.isEmpty then
    out.putStrLn (dispatch l)
    out.flush
  loop h out

def main : IO Unit := do
  let out ← IO.getStdout
  loop (← IO.getStdin) out
  out.flush
