/- Driver command: the assembler through its text interface. -/
import EtkVerif.Driver.Util
import EtkVerif.Asm.Parse
import EtkVerif.Asm.Assemble
import EtkVerif.Asm.Spec
import EtkVerif.Asm.FuelLemmas
namespace EtkVerif.Driver
open EtkVerif Asm

/-- `<macro>_<label>_<digits>` → `<macro>_<label>_#` (the random suffix) -/
def canonName (n : String) : String :=
  let parts := n.splitOn "_"
  match parts.reverse with
  | last :: rest =>
    if rest.length ≥ 2 && !last.isEmpty && last.all Char.isDigit then "_".intercalate (rest.reverse ++ ["#"]) else n
  | [] => n

def sortedNames (ls : List String) : String :=
  let c := (ls.map canonName).foldl (fun acc x => if acc.contains x then acc else acc ++ [x]) []
  let rec ins (s : String) : List String → List String
    | [] => [s]
    | x :: xs => if s ≤ x then s :: x :: xs else x :: ins s xs
  let sorted := c.foldr ins []
  if sorted.isEmpty then "-" else ",".intercalate sorted

def showParseErr : ParseErr → String
  | .lexer => "err Parse.Lexer"
  | .immediateTooLarge => "err Parse.ImmediateTooLarge"
  | .missingArgument g e => s!"err Parse.MissingArgument {g}/{e}"
  | .extraArgument e => s!"err Parse.ExtraArgument {e}"
  | .argumentType => "err Parse.ArgumentType"
  | .panic _ => "panic"

def showAsmErr : AsmErr → String
  | .duplicateLabel l => s!"err DuplicateLabel {canonName l}"
  | .duplicateMacro n => s!"err DuplicateMacro {n}"
  | .expressionTooLarge => "err ExpressionTooLarge"
  | .expressionNegative => "err ExpressionNegative"
  | .undeclaredLabels ls => s!"err UndeclaredLabels {sortedNames ls}"
  | .undeclaredInstructionMacro n => s!"err UndeclaredInstructionMacro {n}"
  | .undeclaredExpressionMacro n => s!"err UndeclaredExpressionMacro {n}"
  | .undeclaredVariableMacro v => s!"err UndeclaredVariableMacro {v}"
  | .divisionByZero => "err Asm.DivisionByZero"
  | .macroArgumentCount n => s!"err Asm.MacroArgumentCount {n}"
  | .macroRecursionLimit n => s!"err Asm.MacroRecursionLimit {n}"
  | .panic _ => "panic"

def decodeUtf8 (bytes : List Nat) : Option (List Nat) :=
  match String.fromUTF8? (ByteArray.mk (bytes.map (·.toUInt8)).toArray) with
  | some s => some (s.toList.map Char.toNat)
  | none => none

/-- fuel for the model's structural recursions: the assembler model spends one unit per fed item and per nesting
level, so a bound above the source length can never be the reason for an answer -/
def asmFuel : Nat := 100000
def asmFuelFor (n : Nat) : Nat := asmFuel + 2 * n
/-- the bound of `assemble_fuel_sufficient` (C14_terminates): with it the fuel marker cannot be the answer -/
def asmFuelOps (n : Nat) (rs : List RawOp) : Nat := max (asmFuelFor n) ((maxMacroDepth + 2) * (opsSize (RawOps.ofList rs) + 2))

/-- `asm <hex source>`: without a file system every directive fails to resolve.
`useSpec`: run the reference semantics (`Spec.assembleScope`) instead of the model. -/
def cmdAsmWith (useSpec : Bool) (args : List String) : String :=
  match args with
  | h :: _ =>
    match unhex h with
    | none => "bad-op"
    | some bytes =>
      match decodeUtf8 bytes with
      | none => "bad-op"
      | some text =>
        match parseAsm text with
        | .error e => showParseErr e
        | .ok nodes =>
          let rec raws : List Node → Option (List RawOp)
            | [] => some []
            | .op o :: rest => (raws rest).map (RawOp.op o :: ·)
            | _ :: _ => none
          match raws nodes with
          | none => "err Io canonicalizing_include/import"
          | some rs =>
            let r := if useSpec then Spec.assembleScope (fun k => k) (asmFuelOps text.length rs) 0 (RawOps.ofList rs)
                     else assemble (fun k => k) (asmFuelOps text.length rs) {} (RawOps.ofList rs)
            match r with
            | .ok (bytes, _) => s!"ok {hx bytes}"
            | .error e => showAsmErr e
  | _ => "bad-op"

def cmdAsm (args : List String) : String := cmdAsmWith false args
def cmdAsmSpec (args : List String) : String := cmdAsmWith true args

end EtkVerif.Driver
