/- Line-protocol helpers for the model driver (mirrors harness/core/src/main.rs). -/
namespace EtkVerif.Driver

def hexDigit (n : Nat) : Char :=
  if n < 10 then Char.ofNat (48 + n) else Char.ofNat (87 + n)

def hxByte (b : Nat) : String := String.ofList [hexDigit (b / 16 % 16), hexDigit (b % 16)]

/-- lowercase hex of a byte list; `-` for the empty list -/
def hx (bs : List Nat) : String :=
  if bs.isEmpty then "-" else String.join (bs.map hxByte)

def unhexDigit (c : Char) : Option Nat :=
  if '0' ≤ c ∧ c ≤ '9' then some (c.toNat - 48)
  else if 'a' ≤ c ∧ c ≤ 'f' then some (c.toNat - 87)
  else if 'A' ≤ c ∧ c ≤ 'F' then some (c.toNat - 55)
  else none

def unhexList : List Char → Option (List Nat)
  | [] => some []
  | [_] => none
  | a :: b :: rest => do
    let x ← unhexDigit a
    let y ← unhexDigit b
    let r ← unhexList rest
    pure ((x * 16 + y) :: r)

def unhex (s : String) : Option (List Nat) :=
  if s == "-" then some [] else unhexList s.toList

def splitOn (s : String) (sep : String) : List String := s.splitOn sep

def natList (s : String) : List Nat :=
  if s == "-" then [] else (s.splitOn ".").filterMap String.toNat?

end EtkVerif.Driver
