/- Driver command: the control-flow graph pipeline. -/
import EtkVerif.Driver.AnnCmd
import EtkVerif.Cfg.Model
import EtkVerif.Cfg.PipelineDef
namespace EtkVerif.Driver
open EtkVerif Annot Smt Cfg

def hexStr (n : Nat) : String := String.ofList (Nat.toDigits 16 n)

def nodeLabel (g : Graph) : Node → String
  | .terminate => "<terminate>"
  | .badJump => "<bad-jump>"
  | .block i => match g.blocks[i]? with
    | some b => "Offset:_0x" ++ hexStr b.offset
    | none => "?"

def insertSorted (s : String) : List String → List String
  | [] => [s]
  | x :: xs => if s ≤ x then s :: x :: xs else x :: insertSorted s xs

def sortStrings (l : List String) : List String := l.foldr insertSorted []

def showGraph (g : Graph) : String :=
  let labels := ["<terminate>", "<bad-jump>"] ++ (List.range g.blocks.length).map (fun i => nodeLabel g (.block i))
  let es := sortStrings (g.edges.map (fun (a, b) => nodeLabel g (.block a) ++ ">" ++ nodeLabel g b))
  s!"nodes=[{",".intercalate labels}] edges=[{",".intercalate es}]"

def showAnswer : Answer → String
  | .const true => "T"
  | .const false => "F"
  | .ask q => " ".intercalate (q.map BTerm.render)
  | .panic _ => "PANIC"

def blocksOf (bytes : List Nat) : List Blocks.Block := Pipeline.blocks bytes

/-- `cfg <hex>`: `init <graph> queries <edge>=<answer>;…` -/
def cmdCfg (args : List String) : String :=
  match args with
  | [h] =>
    match unhex h with
    | none => "bad-op"
    | some bytes =>
      let t := Gen.cancun
      let rec annAll : List Blocks.Block → Option (List Annotated)
        | [] => some []
        | b :: rest => match annotate t b, annAll rest with
          | .ok a, some r => some (a :: r)
          | _, _ => none
      match annAll (blocksOf bytes) with
      | none => "panic"
      | some anns =>
        match cfgNew anns with
        | .error _ => "panic"
        | .ok g =>
          let qs := g.edges.map (fun e => nodeLabel g (.block e.1) ++ ">" ++ nodeLabel g e.2 ++ "=" ++ showAnswer (queryOf g e))
          if qs.any (fun s => s.endsWith "=PANIC") then "panic"
          else s!"init {showGraph g} queries {";".intercalate (sortStrings qs)}"
  | _ => "bad-op"

end EtkVerif.Driver
