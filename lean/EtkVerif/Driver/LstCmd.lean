/- Driver command: disassemble, print the listing, re-assemble it. -/
import EtkVerif.Driver.AsmCmd
import EtkVerif.Disasm.Model
namespace EtkVerif.Driver
open EtkVerif Asm

/-- `lst <hex>` -/
def cmdLst (args : List String) : String :=
  match args with
  | [h] =>
    match unhex h with
    | none => "bad-op"
    | some bytes =>
      let t := Gen.cancun
      let (items, tail) := Disasm.decodeAll t bytes
      let line (i : Disasm.Item) : List Nat :=
        (Ops.rowOf t i.2.op).mnem ++ (if i.2.imm.isEmpty then [] else [32, 48, 120] ++ (hx i.2.imm).toList.map Char.toNat) ++ [10]
      let text := items.flatMap line
      let offs := ",".intercalate (items.map (fun i => toString i.1))
      let fin := if tail.2.isEmpty then 1 else 0
      let res := match parseAsm text with
        | .error e => "asm=" ++ showParseErr e
        | .ok nodes =>
          let rec raws : List Node → Option (List RawOp)
            | [] => some []
            | .op o :: rest => (raws rest).map (RawOp.op o :: ·)
            | _ :: _ => none
          match raws nodes with
          | none => "asm=err Io"
          | some rs => match assemble (fun k => k) asmFuel {} (RawOps.ofList rs) with
            | .ok (out, _) => s!"asm=ok {hx out}"
            | .error e => "asm=" ++ showAsmErr e
      s!"offs={offs} fin={fin} {res}"
  | _ => "bad-op"

end EtkVerif.Driver
