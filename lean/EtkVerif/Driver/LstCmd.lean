/- Driver command: disassemble, print the listing, re-assemble it. -/
import EtkVerif.Driver.AsmCmd
import EtkVerif.Disasm.Model
import EtkVerif.Asm.Listing
namespace EtkVerif.Driver
open EtkVerif Asm

/-- `lst <hex> [<piece sizes>]`: the pieces the input is written in cannot matter (T-dis), so they are ignored -/
def cmdLst (args : List String) : String :=
  match args with
  | h :: _ =>
    match unhex h with
    | none => "bad-op"
    | some bytes =>
      let t := Gen.cancun
      let (items, tail) := Disasm.decodeAll t bytes
      let text := Listing.listing (items.map (·.2))
      let offs := ",".intercalate (items.map (fun i => toString i.1))
      let fin := if tail.2.isEmpty then 1 else 0
      let res := match parseAsm text with
        | .error e => "asm=" ++ showParseErr e
        | .ok nodes =>
          let rec raws : List Node → Option (List RawOp)
            | [] => some []
            | .op o :: rest => (raws rest).map (RawOp.op o :: ·)
            | _ :: _ => none
          match raws nodes with
          | none => "asm=err Io"
          | some rs => match assemble (fun k => k) (asmFuelOps text.length rs) {} (RawOps.ofList rs) with
            | .ok (out, _) => s!"asm=ok {hx out}"
            | .error e => "asm=" ++ showAsmErr e
      s!"offs={offs} fin={fin} {res}"
  | _ => "bad-op"

end EtkVerif.Driver
