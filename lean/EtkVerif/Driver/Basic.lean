/- Driver commands for opcode tables, disassembler and separator. -/
import EtkVerif.Driver.Util
import EtkVerif.Gen.OpTable
import EtkVerif.Blocks.Model
namespace EtkVerif.Driver
open EtkVerif Ops

def forkTable (f : String) : Option OpTable :=
  if f == "london" then some Gen.london
  else if f == "shanghai" then some Gen.shanghai
  else if f == "cancun" then some Gen.cancun
  else none

def optCode : Option Nat → String
  | some c => s!"some {c}"
  | none => "none"

def cmdOps (args : List String) : String :=
  match args with
  | [what, fork, arg] =>
    match forkTable fork with
    | none => "bad-fork"
    | some t =>
      if what == "fromslice" then
        match unhex arg with
        | none => "bad-op"
        | some bs =>
          match fromSlice t bs with
          | .ok s c => s!"ok {s} {c}"
          | .noImmediate => "err noimm"
          | .tryInto => "err tryinto"
          | .panic => "panic"
      else if what == "pushfor" then
        match arg.toNat? with
        | some n => optCode (pushFor n)
        | none => "bad-op"
      else if what == "push" then
        match arg.toNat? with
        | some n => optCode (push n)
        | none => "bad-op"
      else if what == "upsize" then
        match arg.toNat? with
        | some n => (match upsize t n with | .some c => s!"some {c}" | .none => "none" | .panic => "panic")
        | none => "bad-op"
      else if what == "parse" then
        match unhex arg with
        | some m => (match parse t m with | some c => s!"ok {c}" | none => "err")
        | none => "bad-op"
      else if what == "row" then
        match arg.toNat? with
        | some n =>
          let r := rowOf t n
          let b := fun (x : Bool) => if x then 1 else 0
          s!"{r.code} {String.ofList (r.mnem.map Char.ofNat)} {r.extra} {r.pops} {r.pushes} {b r.exit} {b r.jump} {b r.jt} {r.size} {r.toU8} {r.parsed}"
        | none => "bad-op"
      else if what == "new" then
        match arg.toNat? with
        | some n => (match newNoImm t n with | some s => s!"some {s}" | none => "none")
        | none => "bad-op"
      else "bad-op"
  | _ => "bad-op"

open Disasm in
def showItem (i : Item) : String := s!"{i.1}:{hx i.2.bytes}"

open Disasm in
/-- `dis <hex> <sched>` -/
def cmdDis (args : List String) : String :=
  match args with
  | hexs :: rest =>
    match unhex hexs with
    | none => "bad-op"
    | some bytes =>
      let sched := (rest.headD "").splitOn ","
      let t := Gen.cancun
      let rec go (toks : List String) (d : Dis) (pending : List Nat) (out : String) : String :=
        match toks with
        | [] =>
          match finish d with
          | .ok => out ++ "fin=ok"
          | .truncated o r => out ++ s!"fin=trunc:{o}:{hx r}"
        | tok :: toks =>
          if tok.isEmpty then go toks d pending out
          else
            let k := tok.take 1
            let r := (tok.drop 1).toString
            if k == "w" then
              let n := r.toNat?.getD 0
              let chunk := pending.take n
              let (d', wrote) := write d chunk
              go toks d' (pending.drop n) (out ++ s!"w{wrote} ")
            else if k == "p" then
              let max := if r == "a" then pending.length + d.buffer.length + 1 else r.toNat?.getD 0
              let rec poll (fuel : Nat) (d : Dis) (got : List String) : Dis × List String × Bool :=
                match fuel with
                | 0 => (d, got, false)
                | fuel + 1 =>
                  match next t d with
                  | (.item i, d') => poll fuel d' (got ++ [showItem i])
                  | (.none, d') => (d', got, false)
                  | (.panic, d') => (d', got, true)
              let (d', got, pan) := poll max d []
              if pan then "panic" else go toks d' pending (out ++ s!"p[{";".intercalate got}] ")
            else "bad-op"
      go sched {} bytes ""
  | _ => "bad-op"

open Blocks in
def showBlock (t : OpTable) (b : Block) : String :=
  s!"{b.offset}:{b.size t}:{".".intercalate (b.ops.map (fun o => hx o.bytes))}"

open Blocks in
/-- `sep <hex> <sched>` -/
def cmdSep (args : List String) : String :=
  match args with
  | hexs :: rest =>
    match unhex hexs with
    | none => "bad-op"
    | some bytes =>
      let t := Gen.cancun
      let items := (Disasm.decodeAll t bytes).1
      let sched := ((rest.headD "").splitOn ",").filter (fun s => !s.isEmpty)
      let rec go (toks : List String) (s : Sep) (ops : List Disasm.Item) (out : List String) : String :=
        match toks with
        | [] => " ".intercalate out
        | tok :: toks =>
          let k := tok.take 1
          let r := (tok.drop 1).toString
          if k == "u" then
            let n := r.toNat?.getD 0
            let batch := ops.take n
            let (s', bits) := batch.foldl (fun (acc : Sep × String) it =>
              let (s', b) := push t acc.1 it; (s', acc.2 ++ (if b then "1" else "0"))) (s, "")
            go toks s' (ops.drop n) (out ++ ["u:" ++ bits])
          else if k == "a" then
            let n := r.toNat?.getD 0
            let (s', b) := pushAll t s (ops.take n)
            go toks s' (ops.drop n) (out ++ [s!"a:{if b then 1 else 0}"])
          else if k == "t" then
            let (s', bs) := take s
            go toks s' ops (out ++ [s!"t:[{"|".intercalate (bs.map (showBlock t))}]"])
          else if k == "f" then
            match finish s with
            | (s', .block (some b)) => go toks s' ops (out ++ ["f:" ++ showBlock t b])
            | (s', .block none) => go toks s' ops (out ++ ["f:none"])
            | (_, .panic) => "panic"
          else "bad-op"
      go sched {} items []
  | _ => "bad-op"

end EtkVerif.Driver
