/- Driver command: solver terms of a block's exit and output expressions. -/
import EtkVerif.Driver.AnnCmd
import EtkVerif.Smt.Translate
namespace EtkVerif.Driver
open EtkVerif Annot Smt

def smtOf (t : Tree) : String :=
  match toTerm t 0 with
  | .ok (x, _) => x.render
  | .error _ => "panic"

/-- `smt <offset> <hex>` -/
def cmdSmt (args : List String) : String :=
  match args with
  | [o, h] =>
    match o.toNat?, unhex h with
    | some off, some bytes =>
      let t := Gen.cancun
      let ops := (Disasm.decodeAll t bytes).1.map (·.2)
      if ops.isEmpty then "empty"
      else match annotate t ⟨off, ops⟩ with
        | .error _ => "panic"
        | .ok a =>
          let ex := match a.exit with
            | .unconditional e => [s!"jump {smtOf e}"]
            | .branch c d _ => [s!"cond {smtOf c}", s!"dest {smtOf d}"]
            | _ => []
          let outs := a.outputs.map (fun e => s!"out {smtOf e}")
          let all := ex ++ outs
          if all.any (fun s => s.endsWith "panic") then "panic" else " ; ".intercalate all
    | _, _ => "bad-op"
  | _ => "bad-op"

end EtkVerif.Driver
