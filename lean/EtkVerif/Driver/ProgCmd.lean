/- Driver command: pseudo-random members of the text family of `ProgText.parse_prog`, generated and RENDERED by the
model itself (`ProgText.render`, the definition the theorem is about), so that the correspondence run feeds the real
assembler exactly texts the theorem speaks of. -/
import EtkVerif.Driver.AsmCmd
import EtkVerif.Asm.ProgText
namespace EtkVerif.Driver
open EtkVerif Asm Asm.Layout Asm.ExprText Asm.ProgText

/-- linear congruential generator -/
def lcg (s : Nat) : Nat := (s * 6364136223846793005 + 1442695040888963407) % 18446744073709551616
def pick {α} [Inhabited α] (s : Nat) (xs : List α) : α := xs.getD ((s / 65536) % xs.length) default

instance : Inhabited BinOp := ⟨.plus⟩
instance : Inhabited TTerm := ⟨.num .dec [48]⟩
instance : Inhabited Disasm.Instr := ⟨⟨0, []⟩⟩
instance : Inhabited BlankLine := ⟨⟨[], none, false⟩⟩

def cp (x : String) : List Nat := x.toList.map Char.toNat

def genBlanks (s : Nat) : List Nat := pick s [[], [], [32], [9], [32, 32], [9, 32]]
def genComment (s : Nat) : Option (List Nat) :=
  pick s [none, none, some [], some (cp " c"), some (cp "; stop"), some (cp ";pc;pc"), some (cp " a: ; jumpdest"),
          some (cp " %push(1); pc"), some (cp " \"q\" ; %include(\"x\")")]

def genNum (s : Nat) : TTerm :=
  pick s [.num .dec (cp "0"), .num .dec (cp "7"), .num .dec (cp "255"), .num .dec (cp "0012"), .num .hex (cp "ff"), .num .hex (cp "00Ab"),
          .num .bin (cp "101"), .num .oct (cp "17"), .num .dec (cp "65536"), .num .hex (cp "0100")]

def genLabelName (s : Nat) : List Nat := pick s [cp "a", cp "b", cp "lab_1", cp "pc", cp "Z9", cp "push1", cp "selector"]

/-- a term: mostly numbers and labels, sometimes a negative literal or a parenthesised sequence -/
def genTerm : Nat → Nat → TTerm
  | 0, s => genNum s
  | d + 1, s =>
    let r := (s / 256) % 10
    if r < 4 then genNum (lcg s)
    else if r < 7 then .label (genLabelName (lcg s))
    else if r < 8 then .neg (pick (lcg s) [cp "1", cp "2", cp "30"])
    else .paren (genBlanks (lcg s)) (.mk (genTerm d (lcg (lcg s))) (.cons (genBlanks s) (pick s [.plus, .times, .minus]) (genBlanks (lcg s + 1))
           (genTerm d (lcg (lcg (lcg s)))) .nil)) (genBlanks (lcg s + 7))

def genRest : Nat → Nat → Nat → TRest
  | 0, _, _ => .nil
  | k + 1, d, s => .cons (genBlanks s) (pick (lcg s) [.plus, .plus, .times, .minus, .divide]) (genBlanks (lcg s + 3)) (genTerm d (lcg (lcg s)))
      (genRest k d (lcg (lcg (lcg s))))

def genSeq (s : Nat) : TSeq := .mk (genTerm 2 s) (genRest ((s / 4096) % 4) 2 (lcg s))

def genTermT (s : Nat) (last : Bool) : Layout.Term :=
  let r := (s / 1024) % 10
  if last && r < 3 then .open_ (genBlanks s) (genComment (lcg s))
  else if r < 6 then .semi (genBlanks s) (genBlanks (lcg s))
  else .line (genBlanks s) (genComment (lcg s)) (r == 9)
         (pick (lcg (lcg s)) [[], [], [⟨genBlanks s, genComment s, false⟩], [⟨[], none, true⟩, ⟨[32], some (cp "x;y"), false⟩]])

def genStmt (s : Nat) : Stmt :=
  let r := (s / 512) % 10
  if r < 3 then .ins (pick (lcg s) [⟨0x5b, []⟩, ⟨0x58, []⟩, ⟨0x60, [0]⟩, ⟨0x61, [0, 255]⟩, ⟨0x5f, []⟩, ⟨0x53, []⟩, ⟨0xa4, []⟩, ⟨0x8f, []⟩,
                              ⟨0x7f, List.replicate 32 171⟩])
  else if r < 5 then .label (genLabelName (lcg s)) (pick s [[], [], [32]])
  else if r < 8 then .apush (genBlanks s) (genSeq (lcg s)) (genBlanks (lcg s + 5))
  else .pushE 32 (pick s [32, 9]) (genSeq (lcg s))     -- width 32: every closed operand of this generator fits

def genItems : Nat → Nat → List ProgText.Item
  | 0, _ => []
  | k + 1, s => ⟨genBlanks s, genStmt (lcg s), genTermT (lcg (lcg s)) (k == 0)⟩ :: genItems k (lcg (lcg (lcg s)))

/-- `proggen <seed> <n>`: the rendered text of the `n`-statement program generated from `seed` -/
def cmdProgGen (args : List String) : String :=
  match args with
  | [s, n] =>
    match s.toNat?, n.toNat? with
    | some s, some n =>
      let head : List BlankLine := pick s [[], [], [⟨[], some (cp " head ; pc"), false⟩]]
      let items := genItems n (lcg s)
      let text := ProgText.render head items
      let bytes := (String.ofList (text.map Char.ofNat)).toUTF8.toList.map (·.toNat)
      -- the walk must give exactly the nodes the theorem states (`parse_prog`): checked here as well
      let okNodes := match parseAsm text with
        | .ok ns => ns.length == items.length
        | .error _ => false
      s!"text={hx bytes} nodes={if okNodes then 1 else 0}"
    | _, _ => "bad-op"
  | _ => "bad-op"

end EtkVerif.Driver
