/- Driver command: a decorated instruction program given as STRUCTURE; the model renders it with `Layout.render`
(the definition the layout theorem C02_layout is about), checks `Layout.WF` and that the rendering equals the text
the implementation was given, and assembles it. -/
import EtkVerif.Driver.AsmCmd
import EtkVerif.Asm.Layout
namespace EtkVerif.Driver
open EtkVerif Asm Asm.Layout

def hexField (s : String) : Option (List Nat) := if s == "-" then some [] else unhex s

/-- `n` = no comment, `c<hex>` = comment with that body (`c-` = empty body) -/
def commentField (s : String) : Option (Option (List Nat)) :=
  if s == "n" then some none
  else if s.startsWith "c" then ((hexField (s.drop 1).toString).bind decodeUtf8).map some   -- code points of the UTF-8 body
  else none

def boolField (s : String) : Option Bool := if s == "1" then some true else if s == "0" then some false else none

/-- `<blanks>/<comment>/<crlf>` -/
def blankLineField (s : String) : Option BlankLine :=
  match s.splitOn "/" with
  | [b, c, e] => do
    let b ← hexField b; let c ← commentField c; let e ← boolField e
    pure ⟨b, c, e⟩
  | _ => none

def listField {α} (sep : String) (f : String → Option α) (s : String) : Option (List α) :=
  if s == "=" then some [] else (s.splitOn sep).mapM f

def termField (s : String) : Option Term :=
  match s.splitOn ":" with
  | ["s", b, a] => do let b ← hexField b; let a ← hexField a; pure (.semi b a)
  | ["l", t, c, e, more] => do
    let t ← hexField t; let c ← commentField c; let e ← boolField e
    let more ← listField ";" blankLineField more
    pure (.line t c e more)
  | ["o", t, c] => do let t ← hexField t; let c ← commentField c; pure (.open_ t c)
  | _ => none

/-- `<lead>|<opcode>.<imm>|<term>` -/
def itemField (s : String) : Option Layout.Item :=
  match s.splitOn "|" with
  | [l, ins, t] =>
    match ins.splitOn "." with
    | [op, imm] => do
      let l ← hexField l; let op ← op.toNat?; let imm ← hexField imm; let t ← termField t
      pure ⟨l, ⟨op, imm⟩, t⟩
    | _ => none
  | _ => none

/-- `lay <head lines> <items> <hex of the text given to the implementation>` -/
def cmdLay (args : List String) : String :=
  match args with
  | [h, is, t] =>
    match listField "," blankLineField h, listField "," itemField is, hexField t with
    | some head, some items, some bytes =>
      if !(decide (Layout.WF head items)) then "not-wf"
      else
        let text := render head items
        if decodeUtf8 bytes != some text then "render-mismatch"
        else cmdAsm [t]
    | _, _, _ => "bad-op"
  | _ => "bad-op"

end EtkVerif.Driver
