/- Driver command: assembling a file tree. -/
import EtkVerif.Driver.AsmCmd
import EtkVerif.Asm.Ingest
import EtkVerif.Asm.IngestTraced
import EtkVerif.Asm.IngestFuel
namespace EtkVerif.Driver
open EtkVerif Asm

/-- base fuel for a file tree whose files hold `total` bytes altogether: above `256 * (N + 2)` for every `N ≤ total + 1`
(`C14_ingest_terminates`: the include recursion) -/
def fsFuel (total : Nat) : Nat := 1100 * (total + 100) + 100000

/-- the fuel `asmfs` / `asmfsr` run with: at least `ingestFileFuel` (`Asm/IngestFuel.lean`), the threshold above which
`ingestFile_terminates` PROVES that fuel is not the reason for any answer — it pre-runs the include expansion and takes
the assembler bound `257 * (opsSize + 2)` of the ops the sources really yield (files that import each other twice
multiply the ops, so no bound in the text size alone would do).  Its premise — no file has more statements than
`total + 1` — holds because a text has at most as many statements as characters (`C14_ingest_terminates_lengths`). -/
def fsFuelFor (fs : FS) (total : Nat) (top : PathC) : Nat :=
  max (fsFuel total) (ingestFileFuel fs ⟨true, []⟩ (total + 1) top)

def strOfBytes (bs : List Nat) : String :=
  (String.fromUTF8? (ByteArray.mk (bs.map (·.toUInt8)).toArray)).getD ""

def absComps (p : String) : List String := (PathC.ofString p).comps

/-- replace the marker `@T@` (the materialised tree's location) by nothing: the model's root is `/` -/
def stripMarker (bs : List Nat) : List Nat :=
  let m := [64, 84, 64]
  let rec go : Nat → List Nat → List Nat
    | 0, l => l
    | f + 1, l => match l with
      | [] => []
      | c :: rest => if m.isPrefixOf (c :: rest) then go f ((c :: rest).drop 3) else c :: go f rest
  go (bs.length + 1) bs

def parseEntries (s : String) : Option Tree :=
  let ents := (s.splitOn ",").filter (fun e => !e.isEmpty)
  ents.foldl (fun acc e => match acc with
    | none => none
    | some t =>
      match e.splitOn ":" with
      | ["f", p, c] => match unhex p, unhex c with
        | some pb, some cb => some (t ++ [(absComps (strOfBytes pb), Entry.file (stripMarker cb))])
        | _, _ => none
      | ["d", p] => match unhex p with
        | some pb => some (t ++ [(absComps (strOfBytes pb), Entry.dir)])
        | none => none
      | ["l", p, tg] => match unhex p, unhex tg with
        | some pb, some tb => some (t ++ [(absComps (strOfBytes pb), Entry.link (strOfBytes tb))])
        | _, _ => none
      | _ => none) (some [])

/-- every proper prefix of an entry's path is a directory (the harness creates parents) -/
def withParents (t : Tree) : Tree :=
  t.foldl (fun acc (p, e) =>
    let pres := (List.range p.length).filterMap (fun i => if i = 0 then none else some (p.take i))
    let missing := pres.filter (fun q => !(acc.any (·.1 == q)) && !(t.any (·.1 == q)))
    acc ++ missing.map (fun q => (q, Entry.dir)) ++ [(p, e)]) []

def showIngErr : IngErr → String
  | .directoryTraversal => "err DirectoryTraversal"
  | .io m => "err Io " ++ m.replace " " "_"
  | .parse e => showParseErr e
  | .assemble e => showAsmErr e
  | .invalidHex => "err InvalidHex"
  | .recursionLimit => "err RecursionLimit"
  | .panic _ => "panic"

/-- `asmfs <hex top path> <entries>` -/
def cmdAsmFs (args : List String) : String :=
  match args with
  | top :: rest =>
    match unhex top, parseEntries (rest.headD "") with
    | some tb, some tree =>
      let t := withParents tree
      let topPath := PathC.ofString ("/" ++ strOfBytes tb)
      let total := t.foldl (fun acc (_, e) => match e with | .file c => acc + c.length | _ => acc) 0
      match ingestFile t.toFS ⟨true, []⟩ (fun k => k) (fsFuelFor t.toFS total topPath) topPath with
      | .ok (bytes, _) => s!"ok {hx bytes}"
      | .error e => showIngErr e
    | _, _ => "bad-op"
  | _ => "bad-op"

/-- `asmfsr <hex top path> <entries>`: as `asmfs`, run with the TRACED ingestion (`Traced.ingestFileT`, the functions the
`C18_all_runs_*` theorems are about); the reply also lists the canonical locations of the files the run read —
successful or not — other than the top-level source, for comparison with the reads observed on the real code -/
def cmdAsmFsR (args : List String) : String :=
  match args with
  | top :: rest =>
    match unhex top, parseEntries (rest.headD "") with
    | some tb, some tree =>
      let t := withParents tree
      let topPath := PathC.ofString ("/" ++ strOfBytes tb)
      let total := t.foldl (fun acc (_, e) => match e with | .file c => acc + c.length | _ => acc) 0
      let (res, tr) := Traced.ingestFileT t.toFS ⟨true, []⟩ (fun k => k) (fsFuelFor t.toFS total topPath) topPath
      let reads := (readsOf tr).map (fun loc => "/".intercalate loc)
      let body := match res with
        | .ok bytes => s!"ok {hx bytes}"
        | .error e => showIngErr e
      body ++ " reads=" ++ (if reads.isEmpty then "-" else "|".intercalate reads)
    | _, _ => "bad-op"
  | _ => "bad-op"

end EtkVerif.Driver
