/-
The flat prefix encoding of expressions (`Expr { ops: Vec<Sym> }`,
`Expr::concat`) and `Expr::inner_walk` over it (T-walk).
-/
import EtkVerif.Sym.Basic
namespace EtkVerif
namespace Flat

/-- Events a `Visit` implementation receives. -/
inductive Event
  | enter (s : Sym)
  | between (s : Sym) (idx : Nat)
  | exit (s : Sym)
  deriving Repr, DecidableEq

/-- `Expr::concat(op, args)`: `op` followed by the arguments' lists. -/
def concat (op : Sym) (args : List (List Sym)) : List Sym := op :: args.flatten

mutual
/-- The events of visiting a tree. -/
def events : Tree → List Event
  | .node s _ args => Event.enter s :: eventsArgs s 0 args ++ [Event.exit s]
def eventsArgs (s : Sym) (idx : Nat) : Trees → List Event
  | .nil => []
  | .cons h t =>
    events h ++ (if idx + 1 < s.arity then [Event.between s idx] else []) ++ eventsArgs s (idx + 1) t
end

mutual
/-- `Expr::inner_walk(ops, visitor)`: returns the events and the unconsumed
suffix; `none` when the list is exhausted (`unreachable!()` / slice index) or
fuel runs out. -/
def innerWalk : List Sym → Nat → Option (List Event × List Sym)
  | _, 0 => none
  | [], _ => none
  | op :: rest, fuel + 1 =>
    match walkChildren op 0 op.arity rest fuel with
    | none => none
    | some (evs, rest') => some (Event.enter op :: evs ++ [Event.exit op], rest')
/-- the `for idx in 0..op.children()` loop -/
def walkChildren (op : Sym) (idx : Nat) : Nat → List Sym → Nat → Option (List Event × List Sym)
  | 0, ops, _ => some ([], ops)
  | k + 1, ops, fuel =>
    match innerWalk ops fuel with
    | none => none
    | some (evs, ops') =>
      match walkChildren op (idx + 1) k ops' fuel with
      | none => none
      | some (evs', ops'') =>
        some (evs ++ (if idx + 1 < op.arity then [Event.between op idx] else []) ++ evs', ops'')
end

mutual
theorem innerWalk_flatten_aux : (t : Tree) → t.wf = true → ∀ (rest : List Sym) (fuel : Nat),
    t.size + 1 ≤ fuel → innerWalk (t.flatten ++ rest) fuel = some (events t, rest)
  | .node s tag args, h, rest, fuel, hf => by
    cases fuel with
    | zero => omega
    | succ fuel =>
      simp only [Tree.wf, Bool.and_eq_true, beq_iff_eq] at h
      obtain ⟨hlen, hwf⟩ := h
      have hc := walkChildren_flattenAll_aux s args hwf 0 rest fuel
        (by simp only [Tree.size] at hf; omega)
      simp only [Tree.flatten, List.cons_append, innerWalk, ← hlen, hc, events]
theorem walkChildren_flattenAll_aux (op : Sym) : (ts : Trees) → Tree.wfAll ts = true →
    ∀ (idx : Nat) (rest : List Sym) (fuel : Nat), Tree.sizeAll ts + 1 ≤ fuel →
    walkChildren op idx ts.length (Tree.flattenAll ts ++ rest) fuel
      = some (eventsArgs op idx ts, rest)
  | .nil, _, idx, rest, fuel, _ => by
    simp only [Trees.length, Tree.flattenAll, List.nil_append, walkChildren, eventsArgs]
  | .cons a ts, h, idx, rest, fuel, hf => by
    simp only [Tree.wfAll, Bool.and_eq_true] at h
    obtain ⟨ha, hts⟩ := h
    simp only [Tree.sizeAll] at hf
    have h1 := innerWalk_flatten_aux a ha (Tree.flattenAll ts ++ rest) fuel (by omega)
    have h2 := walkChildren_flattenAll_aux op ts hts (idx + 1) rest fuel (by omega)
    simp only [Trees.length, Tree.flattenAll, List.append_assoc, walkChildren, h1, h2, eventsArgs]
end

theorem innerWalk_flatten (t : Tree) (h : t.wf = true) (rest : List Sym) :
    innerWalk (t.flatten ++ rest) (t.size + 1) = some (events t, rest) :=
  innerWalk_flatten_aux t h rest (t.size + 1) (Nat.le_refl _)

end Flat
end EtkVerif
