/-
Symbolic expressions of `etk_dasm::sym`: the `Sym` alphabet with its arities, and
expression *trees*.  The Rust `Expr` is the flat prefix list of a tree
(`Expr::concat op args = op :: args.join`); `Sym/Flat.lean` proves that
`Expr::walk` over that list visits exactly the tree, which is why every other
model works on trees.

Trees carry a *tag* on every node: for the nodes standing for a state-dependent
read (mload, sload, balance, call, …) the tag is the index (within the block) of
the instruction that created the node; it is 0 and unused elsewhere.  Tags are
not part of the Rust data: `erase`/`flatten` forget them.
-/
namespace EtkVerif

inductive Sym
  | const (v : Nat)            -- `Const(Box<[u8;32]>)`, big-endian value
  | var (id : Nat)             -- `Var(NonZeroU16)`
  | add | mul | sub | div | sdiv | mod | smod | addmod | mulmod | exp
  | lt | gt | slt | sgt | eq | and | or | xor | byte | shl | shr | sar
  | keccak256 | signextend | iszero | not
  | calldataload | extcodesize | extcodehash | mload | sload | balance | blockhash
  | address | origin | caller | callvalue | calldatasize | codesize | gasprice
  | returndatasize | coinbase | timestamp | number | difficulty | gaslimit
  | chainid | selfbalance | basefee
  | getpc (pc : Nat)           -- `GetPc(u16)`
  | msize | gas
  | create | create2 | callcode | call | staticcall | delegatecall
  deriving Repr, DecidableEq, Inhabited

namespace Sym

/-- `Sym::children`. -/
def arity : Sym → Nat
  | add | mul | sub | div | sdiv | mod | smod | exp | lt | gt | slt | sgt | eq | and | or | xor
  | byte | shl | shr | sar | signextend | keccak256 => 2
  | iszero | not | calldataload | extcodesize | extcodehash | blockhash | balance | mload | sload => 1
  | address | origin | caller | callvalue | calldatasize | codesize | gasprice | returndatasize
  | coinbase | timestamp | number | difficulty | gaslimit | chainid | selfbalance | basefee
  | getpc _ | msize | gas | const _ | var _ => 0
  | addmod | mulmod | create => 3
  | create2 => 4
  | call | callcode => 7
  | delegatecall | staticcall => 6

/-- Nodes whose value depends on mutable machine state (memory, storage, other
accounts, gas, return data): the solver translation gives each occurrence a
fresh constant. -/
def volatile : Sym → Bool
  | mload | sload | balance | extcodesize | extcodehash | returndatasize | selfbalance | msize | gas
  | keccak256 | create | create2 | call | callcode | staticcall | delegatecall => true
  | _ => false

/-- Short name used by the line protocol (same spelling in the harness). -/
def name : Sym → String
  | const v => "c" ++ String.ofList (Nat.toDigits 16 v) | var i => s!"v{i}" | getpc p => s!"pc{p}"
  | add => "add" | mul => "mul" | sub => "sub" | div => "div" | sdiv => "sdiv" | mod => "mod"
  | smod => "smod" | addmod => "addmod" | mulmod => "mulmod" | exp => "exp" | lt => "lt" | gt => "gt"
  | slt => "slt" | sgt => "sgt" | eq => "eq" | and => "and" | or => "or" | xor => "xor" | byte => "byte"
  | shl => "shl" | shr => "shr" | sar => "sar" | keccak256 => "keccak256" | signextend => "signextend"
  | iszero => "iszero" | not => "not" | calldataload => "calldataload" | extcodesize => "extcodesize"
  | extcodehash => "extcodehash" | mload => "mload" | sload => "sload" | balance => "balance"
  | blockhash => "blockhash" | address => "address" | origin => "origin" | caller => "caller"
  | callvalue => "callvalue" | calldatasize => "calldatasize" | codesize => "codesize"
  | gasprice => "gasprice" | returndatasize => "returndatasize" | coinbase => "coinbase"
  | timestamp => "timestamp" | number => "number" | difficulty => "difficulty" | gaslimit => "gaslimit"
  | chainid => "chainid" | selfbalance => "selfbalance" | basefee => "basefee" | msize => "msize"
  | gas => "gas" | create => "create" | create2 => "create2" | callcode => "callcode" | call => "call"
  | staticcall => "staticcall" | delegatecall => "delegatecall"

end Sym

mutual
/-- Expression tree: symbol, tag, children. -/
inductive Tree
  | node (s : Sym) (tag : Nat) (args : Trees)
/-- List of expression trees. -/
inductive Trees
  | nil
  | cons (h : Tree) (t : Trees)
end

namespace Trees
def toList : Trees → List Tree
  | nil => []
  | cons h t => h :: t.toList
def ofList : List Tree → Trees
  | [] => nil
  | h :: t => cons h (ofList t)
def length : Trees → Nat
  | nil => 0
  | cons _ t => t.length + 1
end Trees

namespace Tree

def sym : Tree → Sym | node s _ _ => s
def tag : Tree → Nat | node _ t _ => t
def args : Tree → Trees | node _ _ a => a

/-- A leaf. -/
def leaf (s : Sym) : Tree := node s 0 .nil

mutual
/-- The flat prefix list the Rust code stores (`Expr { ops }`). -/
def flatten : Tree → List Sym
  | node s _ args => s :: flattenAll args
def flattenAll : Trees → List Sym
  | .nil => []
  | .cons h t => flatten h ++ flattenAll t
end

mutual
/-- Well-formed: every node has as many children as its arity. -/
def wf : Tree → Bool
  | node s _ args => args.length == s.arity && wfAll args
def wfAll : Trees → Bool
  | .nil => true
  | .cons h t => wf h && wfAll t
end

mutual
def size : Tree → Nat
  | node _ _ args => 1 + sizeAll args
def sizeAll : Trees → Nat
  | .nil => 0
  | .cons h t => size h + sizeAll t
end

end Tree
end EtkVerif
