/-
Meaning of expression trees: `eval E ω ρ t` with `ρ` binding input variables,
`E` the transaction-constant environment and `ω tag` the value the
state-dependent read created by instruction `tag` actually returned.
-/
import EtkVerif.Sym.Basic
import EtkVerif.Evm.Ops
namespace EtkVerif
open Evm

/-- Meaning of one symbol applied to argument values (in tree order).  The
catch-all arm is only reached by ill-formed trees (`Tree.wf = false`). -/
def Sym.apply (E : Env) (ω : Nat → Word) (ρ : Nat → Word) (tag : Nat) : Sym → List Word → Word
  | .const v, [] => BitVec.ofNat 256 v
  | .var i, [] => ρ i
  | .getpc p, [] => BitVec.ofNat 256 p
  | .add, [a, b] => Evm.add a b
  | .mul, [a, b] => Evm.mul a b
  | .sub, [a, b] => Evm.sub a b
  | .div, [a, b] => Evm.div a b
  | .sdiv, [a, b] => Evm.sdiv a b
  | .mod, [a, b] => Evm.mod a b
  | .smod, [a, b] => Evm.smod a b
  | .addmod, [a, b, n] => Evm.addmod a b n
  | .mulmod, [a, b, n] => Evm.mulmod a b n
  | .exp, [a, b] => Evm.exp a b
  | .signextend, [b, x] => Evm.signextend b x
  | .lt, [a, b] => Evm.lt a b
  | .gt, [a, b] => Evm.gt a b
  | .slt, [a, b] => Evm.slt a b
  | .sgt, [a, b] => Evm.sgt a b
  | .eq, [a, b] => Evm.eq a b
  | .iszero, [a] => Evm.iszero a
  | .and, [a, b] => Evm.and a b
  | .or, [a, b] => Evm.or a b
  | .xor, [a, b] => Evm.xor a b
  | .not, [a] => Evm.not a
  | .byte, [i, x] => Evm.byte i x
  | .shl, [s, x] => Evm.shl s x
  | .shr, [s, x] => Evm.shr s x
  | .sar, [s, x] => Evm.sar s x
  | .address, [] => E.address
  | .origin, [] => E.origin
  | .caller, [] => E.caller
  | .callvalue, [] => E.callvalue
  | .calldatasize, [] => E.calldatasize
  | .codesize, [] => E.codesize
  | .gasprice, [] => E.gasprice
  | .coinbase, [] => E.coinbase
  | .timestamp, [] => E.timestamp
  | .number, [] => E.number
  | .difficulty, [] => E.difficulty
  | .gaslimit, [] => E.gaslimit
  | .chainid, [] => E.chainid
  | .basefee, [] => E.basefee
  | .calldataload, [i] => E.calldataload i
  | .blockhash, [n] => E.blockhash n
  | s, _ => if s.volatile then ω tag else 0

namespace Tree
mutual
def eval (E : Env) (ω : Nat → Word) (ρ : Nat → Word) : Tree → Word
  | node s tag args => s.apply E ω ρ tag (evalAll E ω ρ args)
def evalAll (E : Env) (ω : Nat → Word) (ρ : Nat → Word) : Trees → List Word
  | .nil => []
  | .cons h t => eval E ω ρ h :: evalAll E ω ρ t
end
end Tree

end EtkVerif
