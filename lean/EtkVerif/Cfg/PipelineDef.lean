/-
The analysis pipeline on raw code bytes, as `ecfg` runs it (definitions).
-/
import EtkVerif.Cfg.Model
import EtkVerif.Gen.OpTable
namespace EtkVerif
namespace Pipeline
open Ops Annot Cfg

/-- blocks of a byte string as `ecfg` builds them -/
def blocks (code : List Nat) : List Blocks.Block :=
  let t := Gen.cancun
  let items := (Disasm.decodeAll t code).1
  let (s, _) := Blocks.pushAll t {} items
  let (s, done) := Blocks.take s
  match Blocks.finish s with
  | (_, .block (some b)) => done ++ [b]
  | _ => done

/-- annotate every block (the first panic, if any, wins) -/
def annotateAll (t : OpTable) : List Blocks.Block → Except Annot.Panic (List Annotated)
  | [] => .ok []
  | b :: rest => match annotate t b with
    | .error e => .error e
    | .ok a => match annotateAll t rest with
      | .error e => .error e
      | .ok as => .ok (a :: as)

end Pipeline
end EtkVerif
