/-
The pipeline theorems of `Cfg/Pipeline.lean` with the exact variable-budget
hypothesis: every block needs at most 65535 input variables
(`Annot.inputsNeeded`, see `Annot/TotalExact.lean`) instead of "the sum of the
declared pops of every block is at most 65535" (`popBudget`).  The hypothesis is
also necessary: if some block needs more, the annotate stage reports the `u16`
counter overflow (finding D20) — `pipeline_refused_exact`, `pipeline_annotate_iff`.
-/
import EtkVerif.Cfg.Pipeline
import EtkVerif.Annot.TotalExact
namespace EtkVerif
namespace Pipeline
open Ops Annot Cfg

/-- `pipeline_setup` from acceptance of every block (the only use the proof of
`pipeline_setup` makes of its budget hypothesis). -/
theorem pipeline_setup_of_accepted (code : List Nat) (hb : ∀ b ∈ code, b < 256) (hlen : code.length ≤ 65536)
    (hann : ∀ b ∈ blocks code, ∃ a, annotate Gen.cancun b = .ok a) :
    ∃ anns, annotateAll Gen.cancun (blocks code) = .ok anns ∧ Setup Gen.cancun (blocks code) anns := by
  obtain ⟨hflat, hshaped, hbc, hch, hits, hsum⟩ := blocks_facts code
  obtain ⟨anns, hok, hlen', hget⟩ := annotateAll_ok Gen.cancun (blocks code) hann
  refine ⟨anns, hok, ⟨hlen', hget, ?_, ?_, ?_⟩⟩
  · intro b hbm i hi
    obtain ⟨h1, h2⟩ := blocks_instr code b hbm i hi
    rw [sizeOK_cancun i.op (hb _ h2), ← h1]
    rfl
  · intro b hbm
    have h1 := (blocksChained_bounds _ 0 hbc b hbm).2
    have h2 := total_eq_lenSum _ _ hflat
    omega
  · have hpw := blocksChained_pairwise _ 0 hbc (fun b hbm => byteLen_pos b (hshaped b hbm).1)
    rw [List.pairwise_iff_getElem] at hpw
    intro i j hi hj heq
    rw [List.getElem?_eq_getElem hi, List.getElem?_eq_getElem hj] at heq
    simp only [Option.map_some, Option.some.injEq] at heq
    rcases Nat.lt_trichotomy i j with h | h | h
    · have := hpw i j hi hj h; omega
    · exact h
    · have := hpw j i hj hi h; omega

/-- Each block of the pipeline is accepted by the annotator exactly when it needs at
most 65535 input variables, and refused with the counter overflow otherwise. -/
theorem blocks_annotate_exact (code : List Nat) (hb : ∀ b ∈ code, b < 256)
    (b : Blocks.Block) (hbm : b ∈ blocks code) :
    (inputsNeeded Gen.cancun b.ops ≤ 65535 →
      ∃ a, annotate Gen.cancun b = .ok a ∧ a.inputs = inputsNeeded Gen.cancun b.ops) ∧
    (65535 < inputsNeeded Gen.cancun b.ops → annotate Gen.cancun b = .error .varOverflow) := by
  obtain ⟨-, hshaped, -⟩ := blocks_facts code
  obtain ⟨hne, -, hdl⟩ := hshaped b hbm
  have hops : ∀ i ∈ b.ops, i.op < 256 := fun i hi => hb _ (blocks_instr code b hbm i hi).2
  exact ⟨annotate_total_exact_inputs Gen.cancun tableLedgerOK_cancun b hne hops hdl,
    annotate_refused_exact Gen.cancun tableLedgerOK_cancun b hops hdl⟩

/-- `pipeline_setup` with the exact hypothesis. -/
theorem pipeline_setup_exact (code : List Nat) (hb : ∀ b ∈ code, b < 256) (hlen : code.length ≤ 65536)
    (hinputs : ∀ b ∈ blocks code, inputsNeeded Gen.cancun b.ops ≤ 65535) :
    ∃ anns, annotateAll Gen.cancun (blocks code) = .ok anns ∧ Setup Gen.cancun (blocks code) anns :=
  pipeline_setup_of_accepted code hb hlen (fun b hbm => by
    obtain ⟨a, ha, _⟩ := (blocks_annotate_exact code hb b hbm).1 (hinputs b hbm)
    exact ⟨a, ha⟩)

/-- `pipeline_total` with the exact hypothesis. -/
theorem pipeline_total_exact (code : List Nat) (hb : ∀ b ∈ code, b < 256) (hlen : code.length ≤ 65536)
    (hinputs : ∀ b ∈ blocks code, inputsNeeded Gen.cancun b.ops ≤ 65535) (sat : List Smt.BTerm → Bool) :
    ∃ anns g g', annotateAll Gen.cancun (blocks code) = .ok anns ∧ cfgNew anns = .ok g ∧ refine sat g = .ok g' := by
  obtain ⟨anns, hok, hS⟩ := pipeline_setup_exact code hb hlen hinputs
  obtain ⟨g, hg⟩ := cfgNew_total Gen.cancun (blocks code) anns hS
  obtain ⟨g', hg'⟩ := refine_total Gen.cancun (blocks code) anns hS g hg sat
  exact ⟨anns, g, g', hok, hg, hg'⟩

/-- If every block is either accepted or refused with `varOverflow`, and one is
refused, `annotateAll` reports `varOverflow`. -/
theorem annotateAll_varOverflow (t : OpTable) : ∀ bs : List Blocks.Block,
    (∀ b ∈ bs, (∃ a, annotate t b = .ok a) ∨ annotate t b = .error .varOverflow) →
    (∃ b ∈ bs, annotate t b = .error .varOverflow) →
    annotateAll t bs = .error .varOverflow
  | [], _, ⟨_, hm, _⟩ => by cases hm
  | b :: rest, hall, ⟨c, hcm, hc⟩ => by
    rcases hall b (List.mem_cons_self ..) with ⟨a, ha⟩ | he
    · have hcr : c ∈ rest := by
        rcases List.mem_cons.mp hcm with rfl | h
        · rw [ha] at hc; cases hc
        · exact h
      have ih := annotateAll_varOverflow t rest (fun d hd => hall d (List.mem_cons_of_mem _ hd)) ⟨c, hcr, hc⟩
      simp only [annotateAll, ha, ih]
    · simp only [annotateAll, he]

/-- The converse at pipeline level (finding D20): if some block of the code needs more
than 65535 input variables, the annotate stage reports the `u16` counter overflow. -/
theorem pipeline_refused_exact (code : List Nat) (hb : ∀ b ∈ code, b < 256)
    (hover : ∃ b ∈ blocks code, 65535 < inputsNeeded Gen.cancun b.ops) :
    annotateAll Gen.cancun (blocks code) = .error .varOverflow := by
  obtain ⟨c, hcm, hc⟩ := hover
  refine annotateAll_varOverflow Gen.cancun (blocks code) ?_
    ⟨c, hcm, (blocks_annotate_exact code hb c hcm).2 hc⟩
  intro b hbm
  by_cases h : inputsNeeded Gen.cancun b.ops ≤ 65535
  · obtain ⟨a, ha, _⟩ := (blocks_annotate_exact code hb b hbm).1 h
    exact Or.inl ⟨a, ha⟩
  · exact Or.inr ((blocks_annotate_exact code hb b hbm).2 (by omega))

/-- The annotate stage succeeds exactly when every block needs at most 65535 inputs. -/
theorem pipeline_annotate_iff (code : List Nat) (hb : ∀ b ∈ code, b < 256) :
    (∃ anns, annotateAll Gen.cancun (blocks code) = .ok anns) ↔
    ∀ b ∈ blocks code, inputsNeeded Gen.cancun b.ops ≤ 65535 := by
  constructor
  · intro ⟨anns, hok⟩ b hbm
    apply Nat.le_of_not_lt
    intro hlt
    rw [pipeline_refused_exact code hb ⟨b, hbm, hlt⟩] at hok
    cases hok
  · intro h
    obtain ⟨anns, hok, _⟩ := annotateAll_ok Gen.cancun (blocks code) (fun b hbm => by
      obtain ⟨a, ha, _⟩ := (blocks_annotate_exact code hb b hbm).1 (h b hbm)
      exact ⟨a, ha⟩)
    exact ⟨anns, hok⟩

/-- The old hypothesis implies the new one, block by block. -/
theorem pipeline_inputs_of_budget (code : List Nat)
    (hbudget : ∀ b ∈ blocks code, popBudget Gen.cancun b.ops ≤ 65535) :
    ∀ b ∈ blocks code, inputsNeeded Gen.cancun b.ops ≤ 65535 :=
  fun b hbm => Nat.le_trans (inputsNeeded_le_popBudget Gen.cancun b.ops) (hbudget b hbm)

end Pipeline
end EtkVerif
