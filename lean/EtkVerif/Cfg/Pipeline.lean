/-
The whole analysis pipeline on raw code bytes, as `ecfg` runs it:
`Disassembler` (all bytes written, polled to exhaustion) → `Separator::push_all`
→ `take` ++ `finish` → `AnnotatedBlock::annotate` each → `ControlFlowGraph::new`
→ `refine_shallow`.  Glue between the per-stage theorems: the blocks the first
two stages produce satisfy the hypotheses (`Cfg.Setup`) of the CFG theorems.
-/
import EtkVerif.Cfg.PipelineDef
import EtkVerif.Cfg.Lemmas
import EtkVerif.Annot.Total
import EtkVerif.Blocks.Lemmas
import EtkVerif.Disasm.Lemmas
namespace EtkVerif
namespace Pipeline
open Ops Annot Cfg

/-- The pipeline's first stages establish `Setup`: for every byte string (bytes
< 256) of at most 65536 bytes whose blocks stay below the annotator's `u16`
variable budget, every block is accepted by the annotator and the annotated
blocks satisfy the hypotheses of the CFG theorems (C05, C20, C15). -/
theorem pipeline_setup (code : List Nat) (hb : ∀ b ∈ code, b < 256) (hlen : code.length ≤ 65536)
    (hbudget : ∀ b ∈ blocks code, popBudget Gen.cancun b.ops ≤ 65535) :
    ∃ anns, annotateAll Gen.cancun (blocks code) = .ok anns ∧ Setup Gen.cancun (blocks code) anns := by
  sorry

/-- … hence building and refining the graph never panic, for any solver. -/
theorem pipeline_total (code : List Nat) (hb : ∀ b ∈ code, b < 256) (hlen : code.length ≤ 65536)
    (hbudget : ∀ b ∈ blocks code, popBudget Gen.cancun b.ops ≤ 65535) (sat : List Smt.BTerm → Bool) :
    ∃ anns g g', annotateAll Gen.cancun (blocks code) = .ok anns ∧ cfgNew anns = .ok g ∧ refine sat g = .ok g' := by
  sorry

/-- The blocks concatenate to the linear sweep of the code, and a program counter
is the start of a jump-target block exactly when the sweep has a `jumpdest`
instruction at that offset — so `Cfg.successor`'s notion of a valid jump
destination is the EVM's (relative to the linear sweep). -/
theorem pipeline_jumpdests (code : List Nat) (hb : ∀ b ∈ code, b < 256) :
    (blocks code).flatMap (·.ops) = ((Disasm.decodeAll Gen.cancun code).1).map (·.2) ∧
    ∀ d : Nat, (∃ b ∈ blocks code, b.offset = d ∧ ∃ i, b.ops.head? = some i ∧ i.op = 0x5b) ↔
               (∃ imm, (d, (⟨0x5b, imm⟩ : Disasm.Instr)) ∈ (Disasm.decodeAll Gen.cancun code).1) := by
  sorry

end Pipeline
end EtkVerif
