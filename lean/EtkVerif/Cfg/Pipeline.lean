/-
The whole analysis pipeline on raw code bytes, as `ecfg` runs it:
`Disassembler` (all bytes written, polled to exhaustion) → `Separator::push_all`
→ `take` ++ `finish` → `AnnotatedBlock::annotate` each → `ControlFlowGraph::new`
→ `refine_shallow`.  Glue between the per-stage theorems: the blocks the first
two stages produce satisfy the hypotheses (`Cfg.Setup`) of the CFG theorems.
-/
import EtkVerif.Cfg.PipelineDef
import EtkVerif.Cfg.Lemmas
import EtkVerif.Annot.Total
import EtkVerif.Blocks.Lemmas
import EtkVerif.Disasm.Lemmas
import EtkVerif.Cfg.PipelineAux
namespace EtkVerif
namespace Pipeline
open Ops Annot Cfg

/-- What the first two stages establish about the blocks of a byte string. -/
theorem blocks_facts (code : List Nat) :
    let items := (Disasm.decodeAll Gen.cancun code).1
    (blocks code).flatMap (·.ops) = items.map (·.2) ∧
    (∀ b ∈ blocks code, b.Shaped Gen.cancun) ∧
    Blocks.BlocksChained 0 (blocks code) ∧
    Blocks.Chained 0 items ∧
    (∀ it ∈ items, it.2.imm.length = Disasm.immLen Gen.cancun it.2.op ∧ it.2.op ∈ code) ∧
    Blocks.lenSum items ≤ code.length := by
  intro items
  obtain ⟨hbl, hfed⟩ := blocks_eq_run code
  obtain ⟨hch, hits, hsum⟩ := sweep_facts Gen.cancun code.length 0 code
  refine ⟨?_, ?_, ?_, hch, hits, hsum⟩
  · rw [hbl, Blocks.run_flat, hfed]
  · rw [hbl]; exact Blocks.run_shaped _ jtNotEnd_cancun _
  · rw [hbl]
    refine Blocks.run_offsets _ _ 0 ?_
    rw [hfed]
    exact hch

/-- Every instruction of every block: opcode from the code, immediate of the table's length. -/
theorem blocks_instr (code : List Nat) (b : Blocks.Block) (hb : b ∈ blocks code)
    (i : Disasm.Instr) (hi : i ∈ b.ops) :
    i.imm.length = Disasm.immLen Gen.cancun i.op ∧ i.op ∈ code := by
  obtain ⟨hflat, -, -, -, hits, -⟩ := blocks_facts code
  have : i ∈ (blocks code).flatMap (·.ops) := List.mem_flatMap.mpr ⟨b, hb, hi⟩
  rw [hflat] at this
  obtain ⟨it, hit, rfl⟩ := List.mem_map.mp this
  exact hits it hit

/-- The pipeline's first stages establish `Setup`: for every byte string (bytes
< 256) of at most 65536 bytes whose blocks stay below the annotator's `u16`
variable budget, every block is accepted by the annotator and the annotated
blocks satisfy the hypotheses of the CFG theorems (C05, C20, C15). -/
theorem pipeline_setup (code : List Nat) (hb : ∀ b ∈ code, b < 256) (hlen : code.length ≤ 65536)
    (hbudget : ∀ b ∈ blocks code, popBudget Gen.cancun b.ops ≤ 65535) :
    ∃ anns, annotateAll Gen.cancun (blocks code) = .ok anns ∧ Setup Gen.cancun (blocks code) anns := by
  obtain ⟨hflat, hshaped, hbc, hch, hits, hsum⟩ := blocks_facts code
  have hann : ∀ b ∈ blocks code, ∃ a, annotate Gen.cancun b = .ok a := by
    intro b hbm
    obtain ⟨hne, -, hdl⟩ := hshaped b hbm
    exact annotate_total Gen.cancun tableLedgerOK_cancun b hne
      (fun i hi => hb _ (blocks_instr code b hbm i hi).2) hdl (hbudget b hbm)
  obtain ⟨anns, hok, hlen', hget⟩ := annotateAll_ok Gen.cancun (blocks code) hann
  refine ⟨anns, hok, ⟨hlen', hget, ?_, ?_, ?_⟩⟩
  · intro b hbm i hi
    obtain ⟨h1, h2⟩ := blocks_instr code b hbm i hi
    rw [sizeOK_cancun i.op (hb _ h2), ← h1]
    rfl
  · intro b hbm
    have h1 := (blocksChained_bounds _ 0 hbc b hbm).2
    have h2 := total_eq_lenSum _ _ hflat
    omega
  · have hpw := blocksChained_pairwise _ 0 hbc (fun b hbm => byteLen_pos b (hshaped b hbm).1)
    rw [List.pairwise_iff_getElem] at hpw
    intro i j hi hj heq
    rw [List.getElem?_eq_getElem hi, List.getElem?_eq_getElem hj] at heq
    simp only [Option.map_some, Option.some.injEq] at heq
    rcases Nat.lt_trichotomy i j with h | h | h
    · have := hpw i j hi hj h; omega
    · exact h
    · have := hpw j i hj hi h; omega

/-- … hence building and refining the graph never panic, for any solver. -/
theorem pipeline_total (code : List Nat) (hb : ∀ b ∈ code, b < 256) (hlen : code.length ≤ 65536)
    (hbudget : ∀ b ∈ blocks code, popBudget Gen.cancun b.ops ≤ 65535) (sat : List Smt.BTerm → Bool) :
    ∃ anns g g', annotateAll Gen.cancun (blocks code) = .ok anns ∧ cfgNew anns = .ok g ∧ refine sat g = .ok g' := by
  obtain ⟨anns, hok, hS⟩ := pipeline_setup code hb hlen hbudget
  obtain ⟨g, hg⟩ := cfgNew_total Gen.cancun (blocks code) anns hS
  obtain ⟨g', hg'⟩ := refine_total Gen.cancun (blocks code) anns hS g hg sat
  exact ⟨anns, g, g', hok, hg, hg'⟩

/-- The blocks concatenate to the linear sweep of the code, and a program counter
is the start of a jump-target block exactly when the sweep has a `jumpdest`
instruction at that offset — so `Cfg.successor`'s notion of a valid jump
destination is the EVM's (relative to the linear sweep). -/
theorem pipeline_jumpdests (code : List Nat) (hb : ∀ b ∈ code, b < 256) :
    (blocks code).flatMap (·.ops) = ((Disasm.decodeAll Gen.cancun code).1).map (·.2) ∧
    ∀ d : Nat, (∃ b ∈ blocks code, b.offset = d ∧ ∃ i, b.ops.head? = some i ∧ i.op = 0x5b) ↔
               (∃ imm, (d, (⟨0x5b, imm⟩ : Disasm.Instr)) ∈ (Disasm.decodeAll Gen.cancun code).1) := by
  have _ := hb  -- not needed: bytes ≥ 256 get the default row, which is no jump target
  obtain ⟨hflat, hshaped, hbc, hch, hits, hsum⟩ := blocks_facts code
  refine ⟨hflat, fun d => ⟨?_, ?_⟩⟩
  · rintro ⟨b, hbm, rfl, i, hi, hop⟩
    refine ⟨i.imm, ?_⟩
    have := head_mem _ 0 _ hbc hch hflat b hbm i hi
    obtain ⟨op, imm⟩ := i
    simp only at hop
    subst hop
    exact this
  · rintro ⟨imm, hmem⟩
    obtain ⟨b, hbm, hbo, hbh⟩ := jt_head Gen.cancun _ 0 _ hbc hch hflat hshaped d _ hmem (jt_cancun_5b imm)
    exact ⟨b, hbm, hbo, _, hbh, rfl⟩

end Pipeline
end EtkVerif
