/-
Facts about `byOffset` / `lookup` (the `BTreeMap` of block offsets): it
succeeds exactly when the offsets are pairwise distinct, it is strictly
ascending, and it contains exactly the pairs (offset of block i, i).
-/
import EtkVerif.Cfg.Model
namespace EtkVerif
namespace Cfg
open Annot

/-- Strictly ascending in the offset component. -/
def Asc (m : List (Nat × Nat)) : Prop := m.Pairwise (fun p q => p.1 < q.1)

theorem insertByOffset_some (m : List (Nat × Nat)) (off idx : Nat) (m' : List (Nat × Nat))
    (hs : Asc m) (h : insertByOffset m off idx = some m') :
    Asc m' ∧ (∀ p, p ∈ m' ↔ p = (off, idx) ∨ p ∈ m) ∧ (∀ p ∈ m, p.1 ≠ off) := by
  induction m generalizing m' with
  | nil =>
    simp [insertByOffset] at h
    subst h
    simp [Asc]
  | cons hd rest ih =>
    obtain ⟨o, i⟩ := hd
    unfold insertByOffset at h
    have hs' : Asc rest := (List.pairwise_cons.1 hs).2
    have hlt : ∀ q ∈ rest, o < q.1 := (List.pairwise_cons.1 hs).1
    split at h
    · cases h
    · next hne =>
      split at h
      · next hlt' =>
        cases h
        refine ⟨?_, ?_, ?_⟩
        · refine List.pairwise_cons.2 ⟨?_, hs⟩
          intro q hq
          rcases List.mem_cons.1 hq with rfl | hq
          · exact hlt'
          · exact Nat.lt_trans hlt' (hlt q hq)
        · intro p; simp
        · intro p hp
          rcases List.mem_cons.1 hp with rfl | hp
          · exact fun h => hne h.symm
          · have := hlt p hp
            omega
      · next hnlt =>
        cases hr : insertByOffset rest off idx with
        | none => rw [hr] at h; cases h
        | some r =>
          rw [hr] at h
          simp at h
          subst h
          obtain ⟨a1, a2, a3⟩ := ih r hs' hr
          refine ⟨?_, ?_, ?_⟩
          · refine List.pairwise_cons.2 ⟨?_, a1⟩
            intro q hq
            rcases (a2 q).1 hq with rfl | hq
            · show o < off
              omega
            · exact hlt q hq
          · intro p
            simp only [List.mem_cons, a2]
            constructor
            · rintro (h | h | h)
              · exact Or.inr (Or.inl h)
              · exact Or.inl h
              · exact Or.inr (Or.inr h)
            · rintro (h | h | h)
              · exact Or.inr (Or.inl h)
              · exact Or.inl h
              · exact Or.inr (Or.inr h)
          · intro p hp
            rcases List.mem_cons.1 hp with rfl | hp
            · exact fun h => hne h.symm
            · exact a3 p hp

theorem insertByOffset_total (m : List (Nat × Nat)) (off idx : Nat)
    (h : ∀ p ∈ m, p.1 ≠ off) : ∃ m', insertByOffset m off idx = some m' := by
  induction m with
  | nil => exact ⟨_, rfl⟩
  | cons hd rest ih =>
    obtain ⟨o, i⟩ := hd
    unfold insertByOffset
    have hne : ¬ off = o := fun e => h (o, i) List.mem_cons_self e.symm
    rw [if_neg hne]
    split
    · exact ⟨_, rfl⟩
    · obtain ⟨r, hr⟩ := ih (fun p hp => h p (List.mem_cons_of_mem _ hp))
      rw [hr]
      exact ⟨_, rfl⟩

/-- The fold of `byOffset` over explicit (offset, index) pairs. -/
def build (l : List (Nat × Nat)) (acc : Option (List (Nat × Nat))) : Option (List (Nat × Nat)) :=
  l.foldl (fun acc p => acc.bind (fun m => insertByOffset m p.1 p.2)) acc

theorem build_none (l : List (Nat × Nat)) : build l none = none := by
  induction l with
  | nil => rfl
  | cons p l ih => simpa [build] using ih

theorem build_cons (p : Nat × Nat) (l : List (Nat × Nat)) (m : List (Nat × Nat)) :
    build (p :: l) (some m) = build l (insertByOffset m p.1 p.2) := by
  simp [build]

theorem build_some (l : List (Nat × Nat)) (m0 m : List (Nat × Nat)) (hs : Asc m0)
    (h : build l (some m0) = some m) :
    Asc m ∧ (∀ p, p ∈ m ↔ p ∈ m0 ∨ p ∈ l) ∧ l.Pairwise (fun p q => p.1 ≠ q.1) ∧
      (∀ p ∈ l, ∀ q ∈ m0, q.1 ≠ p.1) := by
  induction l generalizing m0 with
  | nil =>
    simp [build] at h
    subst h
    simp [hs]
  | cons p l ih =>
    rw [build_cons] at h
    cases hi : insertByOffset m0 p.1 p.2 with
    | none => rw [hi, build_none] at h; cases h
    | some m1 =>
      rw [hi] at h
      obtain ⟨a1, a2, a3⟩ := insertByOffset_some m0 p.1 p.2 m1 hs hi
      obtain ⟨b1, b2, b3, b4⟩ := ih m1 a1 h
      refine ⟨b1, ?_, ?_, ?_⟩
      · intro q
        rw [b2, a2]
        simp only [List.mem_cons]
        constructor
        · rintro ((h | h) | h)
          · exact Or.inr (Or.inl h)
          · exact Or.inl h
          · exact Or.inr (Or.inr h)
        · rintro (h | h | h)
          · exact Or.inl (Or.inr h)
          · exact Or.inl (Or.inl h)
          · exact Or.inr h
      · refine List.pairwise_cons.2 ⟨?_, b3⟩
        intro q hq
        exact b4 q hq p ((a2 p).2 (Or.inl rfl))
      · intro q hq r hr
        rcases List.mem_cons.1 hq with rfl | hq
        · exact a3 r hr
        · exact b4 q hq r ((a2 r).2 (Or.inr hr))

theorem build_total (l : List (Nat × Nat)) (m0 : List (Nat × Nat)) (hs : Asc m0)
    (h1 : l.Pairwise (fun p q => p.1 ≠ q.1)) (h2 : ∀ p ∈ l, ∀ q ∈ m0, q.1 ≠ p.1) :
    ∃ m, build l (some m0) = some m := by
  induction l generalizing m0 with
  | nil => exact ⟨m0, rfl⟩
  | cons p l ih =>
    rw [build_cons]
    obtain ⟨m1, hi⟩ := insertByOffset_total m0 p.1 p.2 (fun q hq => h2 p List.mem_cons_self q hq)
    rw [hi]
    obtain ⟨a1, a2, a3⟩ := insertByOffset_some m0 p.1 p.2 m1 hs hi
    obtain ⟨c1, c2⟩ := List.pairwise_cons.1 h1
    refine ih m1 a1 c2 ?_
    intro q hq r hr
    rcases (a2 r).1 hr with rfl | hr
    · exact c1 q hq
    · exact h2 q (List.mem_cons_of_mem _ hq) r hr

/-- The (offset, index) pairs of a block list. -/
def pairsOf (anns : List Annotated) : List (Nat × Nat) := anns.zipIdx.map (fun p => (p.1.offset, p.2))

theorem byOffset_eq_build (anns : List Annotated) : byOffset anns = build (pairsOf anns) (some []) := by
  unfold byOffset build pairsOf
  rw [List.foldl_map]

theorem mem_pairsOf (anns : List Annotated) (off i : Nat) :
    (off, i) ∈ pairsOf anns ↔ ∃ a, anns[i]? = some a ∧ a.offset = off := by
  unfold pairsOf
  simp only [List.mem_map, List.mem_zipIdx_iff_getElem?, Prod.exists, Prod.mk.injEq]
  constructor
  · rintro ⟨a, j, h1, h2, rfl⟩
    exact ⟨a, h1, h2⟩
  · rintro ⟨a, h1, h2⟩
    exact ⟨a, i, h1, h2, rfl⟩

/-- Offsets of distinct blocks are distinct. -/
def DistinctOffsets (anns : List Annotated) : Prop :=
  ∀ (i j : Nat) (a b : Annotated), anns[i]? = some a → anns[j]? = some b → a.offset = b.offset → i = j

theorem pairsOf_pairwise (anns : List Annotated) (h : DistinctOffsets anns) :
    (pairsOf anns).Pairwise (fun p q => p.1 ≠ q.1) := by
  unfold pairsOf
  rw [List.pairwise_map]
  have hnd : (anns.zipIdx).Pairwise (fun p q => p.2 ≠ q.2) := by
    have := List.nodup_range' (s := 0) (n := anns.length) (step := 1)
    rw [← List.zipIdx_map_snd 0 anns] at this
    exact (List.pairwise_map.1 this)
  refine List.Pairwise.imp_of_mem ?_ hnd
  intro p q hp hq hne heq
  obtain ⟨a, i⟩ := p
  obtain ⟨b, j⟩ := q
  rw [List.mem_zipIdx_iff_getElem?] at hp hq
  exact hne (h i j a b hp hq heq)

structure MapOK (anns : List Annotated) (m : List (Nat × Nat)) : Prop where
  asc : Asc m
  mem : ∀ off i, (off, i) ∈ m ↔ ∃ a, anns[i]? = some a ∧ a.offset = off
  distinct : DistinctOffsets anns

theorem byOffset_ok (anns : List Annotated) (m : List (Nat × Nat)) (h : byOffset anns = some m) :
    MapOK anns m := by
  rw [byOffset_eq_build] at h
  obtain ⟨a1, a2, a3, -⟩ := build_some _ [] m (by simp [Asc]) h
  have hmem : ∀ off i, (off, i) ∈ m ↔ ∃ a, anns[i]? = some a ∧ a.offset = off := by
    intro off i
    rw [a2]
    simp [mem_pairsOf]
  refine ⟨a1, hmem, ?_⟩
  intro i j a b hi hj hab
  have h1 : (a.offset, i) ∈ m := (hmem _ _).2 ⟨a, hi, rfl⟩
  have h2 : (a.offset, j) ∈ m := (hmem _ _).2 ⟨b, hj, hab.symm⟩
  -- strictly ascending ⇒ the two pairs coincide
  have : ∀ (m : List (Nat × Nat)), Asc m → ∀ o i j, (o, i) ∈ m → (o, j) ∈ m → i = j := by
    intro m hm o i j
    induction m with
    | nil => intro h; cases h
    | cons hd tl ih =>
      intro h1 h2
      obtain ⟨c1, c2⟩ := List.pairwise_cons.1 hm
      rcases List.mem_cons.1 h1 with e1 | h1 <;> rcases List.mem_cons.1 h2 with e2 | h2
      · rw [← e1] at e2; exact (Prod.mk.inj e2).2.symm
      · have := c1 _ h2; rw [← e1] at this; exact absurd this (Nat.lt_irrefl _)
      · have := c1 _ h1; rw [← e2] at this; exact absurd this (Nat.lt_irrefl _)
      · exact ih c2 h1 h2
  exact this m a1 _ i j h1 h2

theorem byOffset_total (anns : List Annotated) (h : DistinctOffsets anns) :
    ∃ m, byOffset anns = some m := by
  rw [byOffset_eq_build]
  exact build_total _ [] (by simp [Asc]) (pairsOf_pairwise anns h) (by simp)

/-- Same body as `blockAt`. -/
def findIdx (anns : List Annotated) (pc : Nat) : Option Nat :=
  (anns.zipIdx.find? (fun (a, _) => a.offset == pc)).map (·.2)

theorem findIdx_some (anns : List Annotated) (pc j : Nat) (h : findIdx anns pc = some j) :
    ∃ a, anns[j]? = some a ∧ a.offset = pc := by
  unfold findIdx at h
  cases hf : anns.zipIdx.find? (fun (a, _) => a.offset == pc) with
  | none => rw [hf] at h; cases h
  | some p =>
    rw [hf] at h
    obtain ⟨a, k⟩ := p
    simp at h
    subst h
    have h1 := List.mem_of_find?_eq_some hf
    have h2 := List.find?_some hf
    rw [List.mem_zipIdx_iff_getElem?] at h1
    exact ⟨a, h1, by simpa using h2⟩

theorem findIdx_none (anns : List Annotated) (pc : Nat) (h : findIdx anns pc = none) :
    ∀ (j : Nat) (a : Annotated), anns[j]? = some a → a.offset ≠ pc := by
  unfold findIdx at h
  simp only [Option.map_eq_none_iff, List.find?_eq_none] at h
  intro j a hj he
  have := h (a, j) (List.mem_zipIdx_iff_getElem?.2 hj)
  simp [he] at this

theorem findIdx_eq_some_iff (anns : List Annotated) (hd : DistinctOffsets anns) (pc j : Nat) :
    findIdx anns pc = some j ↔ ∃ a, anns[j]? = some a ∧ a.offset = pc := by
  constructor
  · exact findIdx_some anns pc j
  · rintro ⟨a, h1, h2⟩
    cases hf : findIdx anns pc with
    | none => exact absurd h2 (findIdx_none anns pc hf j a h1)
    | some k =>
      obtain ⟨b, hb1, hb2⟩ := findIdx_some anns pc k hf
      rw [hd k j b a hb1 h1 (hb2.trans h2.symm)]

theorem lookup_eq_some_iff (m : List (Nat × Nat)) (hm : Asc m) (off j : Nat) :
    lookup m off = some j ↔ (off, j) ∈ m := by
  induction m with
  | nil => simp [lookup]
  | cons hd tl ih =>
    obtain ⟨o, i⟩ := hd
    obtain ⟨c1, c2⟩ := List.pairwise_cons.1 hm
    unfold lookup at ih ⊢
    rw [List.find?_cons]
    by_cases hoo : o = off
    · subst hoo
      simp only [BEq.rfl, Option.map_some, Option.some.injEq, List.mem_cons, Prod.mk.injEq, true_and]
      constructor
      · intro h; exact Or.inl h.symm
      · rintro (h | h)
        · exact h.symm
        · exact absurd (c1 _ h) (Nat.lt_irrefl _)
    · have : ((o, i).1 == off) = false := by simpa using hoo
      rw [this]
      simp only [ih c2, List.mem_cons, Prod.mk.injEq]
      constructor
      · exact Or.inr
      · rintro (⟨h, -⟩ | h)
        · exact absurd h.symm hoo
        · exact h

theorem lookup_eq_findIdx (anns : List Annotated) (m : List (Nat × Nat)) (hm : MapOK anns m) (off : Nat) :
    lookup m off = findIdx anns off := by
  cases hl : lookup m off with
  | some j =>
    rw [lookup_eq_some_iff m hm.asc, hm.mem] at hl
    exact ((findIdx_eq_some_iff anns hm.distinct off j).2 hl).symm
  | none =>
    cases hf : findIdx anns off with
    | none => rfl
    | some j =>
      have := (lookup_eq_some_iff m hm.asc off j).2 ((hm.mem off j).2 (findIdx_some anns off j hf))
      rw [hl] at this
      cases this

/-- The indices of the jump-target blocks. -/
def jtsOf (anns : List Annotated) : List Nat := (anns.zipIdx.filter (·.1.jumpTarget)).map (·.2)

theorem mem_jtsOf (anns : List Annotated) (j : Nat) :
    j ∈ jtsOf anns ↔ ∃ a, anns[j]? = some a ∧ a.jumpTarget = true := by
  unfold jtsOf
  simp only [List.mem_map, List.mem_filter, List.mem_zipIdx_iff_getElem?, Prod.exists]
  constructor
  · rintro ⟨a, k, ⟨h1, h2⟩, rfl⟩
    exact ⟨a, h1, h2⟩
  · rintro ⟨a, h1, h2⟩
    exact ⟨a, j, ⟨h1, h2⟩, rfl⟩

theorem jtsOf_nodup (anns : List Annotated) : (jtsOf anns).Nodup := by
  unfold jtsOf
  have hnd : (anns.zipIdx).Pairwise (fun p q => p.2 ≠ q.2) := by
    have := List.nodup_range' (s := 0) (n := anns.length) (step := 1)
    rw [← List.zipIdx_map_snd 0 anns] at this
    exact (List.pairwise_map.1 this)
  exact List.pairwise_map.2 (hnd.filter _)

theorem mem_jtOffsets (anns : List Annotated) (es : List (Nat × Node)) (m : List (Nat × Nat))
    (hb : byOffset anns = some m) (o : Nat) :
    o ∈ jtOffsets { blocks := anns, edges := es } ↔
      ∃ (i : Nat) (a : Annotated), anns[i]? = some a ∧ a.offset = o ∧ a.jumpTarget = true := by
  have hm := byOffset_ok anns m hb
  unfold jtOffsets
  simp only [hb, List.mem_map, List.mem_filter, Prod.exists]
  constructor
  · rintro ⟨o', i, ⟨h1, h2⟩, rfl⟩
    obtain ⟨a, ha1, ha2⟩ := (hm.mem _ _).1 h1
    refine ⟨i, a, ha1, ha2, ?_⟩
    simpa [ha1] using h2
  · rintro ⟨i, a, h1, h2, h3⟩
    refine ⟨o, i, ⟨(hm.mem _ _).2 ⟨a, h1, h2⟩, ?_⟩, rfl⟩
    simp [h1, h3]

end Cfg
end EtkVerif
