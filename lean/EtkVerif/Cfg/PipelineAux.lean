/-
Helper lemmas for `EtkVerif.Cfg.Pipeline`: direct facts about the linear sweep,
about chained blocks over chained items, and the identification of
`Pipeline.blocks` with the separator schedule `[pushAll items, take, finish]`.
-/
import EtkVerif.Cfg.PipelineDef
import EtkVerif.Cfg.Lemmas
import EtkVerif.Annot.Total
import EtkVerif.Blocks.Lemmas
import EtkVerif.Disasm.Lemmas
namespace EtkVerif
namespace Pipeline
open Ops Annot Cfg

/-! ### The linear sweep -/

/-- Items of a sweep: offsets chained from `off`, immediates of the table's
length, opcodes taken from the input, total encoded length within the input. -/
theorem sweep_facts (t : OpTable) : ∀ (fuel off : Nat) (bs : List Nat),
    Blocks.Chained off (Disasm.sweep t fuel off bs).1 ∧
    (∀ it ∈ (Disasm.sweep t fuel off bs).1,
      it.2.imm.length = Disasm.immLen t it.2.op ∧ it.2.op ∈ bs) ∧
    Blocks.lenSum (Disasm.sweep t fuel off bs).1 ≤ bs.length := by
  intro fuel
  induction fuel with
  | zero => intro off bs; simp [Disasm.sweep, Blocks.Chained]
  | succ fuel ih =>
    intro off bs
    cases bs with
    | nil => simp [Disasm.sweep, Blocks.Chained]
    | cons b rest =>
      simp only [Disasm.sweep]
      split
      · simp [Blocks.Chained]
      · rename_i hlt
        have hn : Disasm.immLen t b ≤ rest.length := Nat.le_of_not_lt hlt
        obtain ⟨h1, h2, h3⟩ :=
          ih (off + 1 + Disasm.immLen t b) (rest.drop (Disasm.immLen t b))
        have hlen : (⟨b, rest.take (Disasm.immLen t b)⟩ : Disasm.Instr).len
            = 1 + Disasm.immLen t b := by
          simp [Disasm.Instr.len, List.length_take, Nat.min_eq_left hn]
        refine ⟨?_, ?_, ?_⟩
        · refine ⟨rfl, ?_⟩
          rw [hlen, ← Nat.add_assoc]
          exact h1
        · intro it hit
          rcases List.mem_cons.mp hit with rfl | hit
          · simp [Nat.min_eq_left hn]
          · obtain ⟨ha, hb⟩ := h2 it hit
            exact ⟨ha, List.mem_cons_of_mem _ (List.mem_of_mem_drop hb)⟩
        · rw [Blocks.lenSum_cons]
          simp only [hlen, List.length_cons]
          rw [List.length_drop] at h3
          omega

/-! ### Chained items and chained blocks -/

theorem chained_append : ∀ (l : List Disasm.Item) (off : Nat) (m : List Disasm.Item),
    Blocks.Chained off (l ++ m) ↔ Blocks.Chained off l ∧ Blocks.Chained (off + Blocks.lenSum l) m := by
  intro l
  induction l with
  | nil => intro off m; simp [Blocks.Chained]
  | cons x l ih =>
    intro off m
    obtain ⟨o, i⟩ := x
    simp only [List.cons_append, Blocks.Chained, ih, Blocks.lenSum_cons, Nat.add_assoc, and_assoc]

theorem lenSum_eq_of_map (its : List Disasm.Item) (ops : List Disasm.Instr)
    (h : its.map (·.2) = ops) : Blocks.lenSum its = (ops.map Disasm.Instr.len).sum := by
  subst h
  simp [Blocks.lenSum, List.map_map, Function.comp_def]

theorem total_flat (bs : List Blocks.Block) :
    Blocks.total bs = ((bs.flatMap (·.ops)).map Disasm.Instr.len).sum := by
  induction bs with
  | nil => rfl
  | cons b bs ih =>
    simp [Blocks.total_cons, ih, Blocks.Block.byteLen, List.sum_append]

theorem total_eq_lenSum (bs : List Blocks.Block) (items : List Disasm.Item)
    (h : bs.flatMap (·.ops) = items.map (·.2)) : Blocks.total bs = Blocks.lenSum items := by
  rw [total_flat, h, lenSum_eq_of_map items _ rfl]

theorem blocksChained_bounds : ∀ (bs : List Blocks.Block) (off : Nat), Blocks.BlocksChained off bs →
    ∀ b ∈ bs, off ≤ b.offset ∧ b.offset + b.byteLen ≤ off + Blocks.total bs := by
  intro bs
  induction bs with
  | nil => intro off _ b hb; cases hb
  | cons c bs ih =>
    intro off hc b hb
    obtain ⟨h1, h2⟩ := hc
    rw [Blocks.total_cons]
    rcases List.mem_cons.mp hb with rfl | hb
    · omega
    · have := ih _ h2 b hb
      omega

theorem blocksChained_pairwise : ∀ (bs : List Blocks.Block) (off : Nat), Blocks.BlocksChained off bs →
    (∀ b ∈ bs, 1 ≤ b.byteLen) → bs.Pairwise (fun a b => a.offset < b.offset) := by
  intro bs
  induction bs with
  | nil => intro _ _ _; exact List.Pairwise.nil
  | cons c bs ih =>
    intro off hc hpos
    obtain ⟨h1, h2⟩ := hc
    rw [List.pairwise_cons]
    refine ⟨?_, ih _ h2 (fun b hb => hpos b (List.mem_cons_of_mem _ hb))⟩
    intro b hb
    have := (blocksChained_bounds bs _ h2 b hb).1
    have := hpos c (List.mem_cons_self ..)
    omega

theorem byteLen_pos (b : Blocks.Block) (h : b.ops ≠ []) : 1 ≤ b.byteLen := by
  obtain ⟨off, ops⟩ := b
  cases ops with
  | nil => exact absurd rfl h
  | cons i tl => simp [Blocks.Block.byteLen, Disasm.Instr.len]; omega

/-- Split the items along the first block. -/
theorem split_first (b : Blocks.Block) (rest : List Blocks.Block) (off : Nat) (items : List Disasm.Item)
    (hbc : Blocks.BlocksChained off (b :: rest)) (hc : Blocks.Chained off items)
    (hflat : (b :: rest).flatMap (·.ops) = items.map (·.2)) :
    ∃ its₁ its₂, items = its₁ ++ its₂ ∧ its₁.map (·.2) = b.ops ∧
      rest.flatMap (·.ops) = its₂.map (·.2) ∧ b.offset = off ∧
      Blocks.Chained off its₁ ∧ Blocks.Chained (off + b.byteLen) its₂ ∧
      Blocks.BlocksChained (off + b.byteLen) rest := by
  rw [List.flatMap_cons] at hflat
  obtain ⟨its₁, its₂, rfl, h1, h2⟩ := List.map_eq_append_iff.mp hflat.symm
  obtain ⟨hb1, hb2⟩ := hbc
  rw [chained_append] at hc
  have hl : Blocks.lenSum its₁ = b.byteLen := lenSum_eq_of_map its₁ b.ops h1
  rw [hl] at hc
  exact ⟨its₁, its₂, rfl, h1, h2.symm, hb1, hc.1, hc.2, hb2⟩

/-- The first instruction of every block is the item recorded at the block's offset. -/
theorem head_mem : ∀ (bs : List Blocks.Block) (off : Nat) (items : List Disasm.Item),
    Blocks.BlocksChained off bs → Blocks.Chained off items →
    bs.flatMap (·.ops) = items.map (·.2) →
    ∀ b ∈ bs, ∀ i, b.ops.head? = some i → (b.offset, i) ∈ items := by
  intro bs
  induction bs with
  | nil => intro _ _ _ _ _ b hb; cases hb
  | cons c bs ih =>
    intro off items hbc hc hflat b hb i hi
    obtain ⟨its₁, its₂, rfl, h1, h2, hoff, hc1, hc2, hbc2⟩ := split_first c bs off items hbc hc hflat
    rcases List.mem_cons.mp hb with rfl | hb
    · cases its₁ with
      | nil =>
        simp only [List.map_nil] at h1
        rw [← h1] at hi
        cases hi
      | cons x its₁ =>
        obtain ⟨o, i'⟩ := x
        simp only [List.map_cons] at h1
        rw [← h1] at hi
        simp only [List.head?_cons, Option.some.injEq] at hi
        subst hi
        have : o = off := hc1.1
        rw [hoff, ← this]
        exact List.mem_append_left _ (List.mem_cons_self ..)
    · exact List.mem_append_right _ (ih _ its₂ hbc2 hc2 h2 b hb i hi)

/-- A jump-target item is the first instruction of a block starting at its offset. -/
theorem jt_head (t : OpTable) : ∀ (bs : List Blocks.Block) (off : Nat) (items : List Disasm.Item),
    Blocks.BlocksChained off bs → Blocks.Chained off items →
    bs.flatMap (·.ops) = items.map (·.2) → (∀ b ∈ bs, b.Shaped t) →
    ∀ d i, (d, i) ∈ items → Blocks.isJumpTarget t i = true →
      ∃ b ∈ bs, b.offset = d ∧ b.ops.head? = some i := by
  intro bs
  induction bs with
  | nil =>
    intro _ items _ _ hflat _ d i hmem _
    simp only [List.flatMap_nil] at hflat
    have : items = [] := List.map_eq_nil_iff.mp hflat.symm
    subst this
    cases hmem
  | cons c bs ih =>
    intro off items hbc hc hflat hsh d i hmem hjt
    obtain ⟨its₁, its₂, rfl, h1, h2, hoff, hc1, hc2, hbc2⟩ := split_first c bs off items hbc hc hflat
    rcases List.mem_append.mp hmem with hm | hm
    · refine ⟨c, List.mem_cons_self .., ?_⟩
      cases its₁ with
      | nil => cases hm
      | cons x its₁ =>
        obtain ⟨o, i'⟩ := x
        simp only [List.map_cons] at h1
        rcases List.mem_cons.mp hm with heq | hm
        · cases heq
          have : d = off := hc1.1
          rw [← h1]
          exact ⟨by rw [hoff, this], rfl⟩
        · exfalso
          have hin : i ∈ c.ops.tail := by
            rw [← h1]
            exact List.mem_map.mpr ⟨(d, i), hm, rfl⟩
          have := (hsh c (List.mem_cons_self ..)).2.1 i hin
          rw [this] at hjt
          cases hjt
    · obtain ⟨b, hb, hbo, hbh⟩ := ih _ its₂ hbc2 hc2 h2
        (fun b hb => hsh b (List.mem_cons_of_mem _ hb)) d i hm hjt
      exact ⟨b, List.mem_cons_of_mem _ hb, hbo, hbh⟩

/-! ### `Pipeline.blocks` is the separator run on the sweep -/

/-- The schedule `ecfg` runs. -/
def sched (items : List Disasm.Item) : List Blocks.Ev := [.pushAll items, .take, .finish]

theorem blocks_eq_run (code : List Nat) :
    blocks code = (Blocks.run Gen.cancun (sched (Disasm.decodeAll Gen.cancun code).1)).allBlocks ∧
    (Blocks.run Gen.cancun (sched (Disasm.decodeAll Gen.cancun code).1)).fed =
      (Disasm.decodeAll Gen.cancun code).1 := by
  unfold blocks sched Blocks.run
  simp only [List.foldl_cons, List.foldl_nil, Blocks.step]
  generalize (Disasm.decodeAll Gen.cancun code).1 = items
  rcases hs : Blocks.pushAll Gen.cancun {} items with ⟨⟨complete, ip⟩, a⟩
  cases ip <;> simp [Blocks.take, Blocks.finish, Blocks.Run.allBlocks]

/-! ### the Cancun table -/

theorem jtNotEnd_cancun : Blocks.JtNotEnd Gen.cancun := Blocks.jtNotEnd_of_all _ (by decide +kernel)

theorem sizeOK_cancun : Disasm.SizeOK Gen.cancun := Disasm.sizeOK_of_tableOK Ops.cancun_tableOK

theorem jt_cancun_5b (imm : List Nat) : Blocks.isJumpTarget Gen.cancun ⟨0x5b, imm⟩ = true := by
  show (rowOf Gen.cancun 0x5b).jt = true
  decide +kernel

/-! ### `annotateAll` -/

theorem annotateAll_ok (t : OpTable) : ∀ bs : List Blocks.Block,
    (∀ b ∈ bs, ∃ a, annotate t b = .ok a) →
    ∃ anns, annotateAll t bs = .ok anns ∧ anns.length = bs.length ∧
      ∀ i (h : i < bs.length), ∃ a, anns[i]? = some a ∧ annotate t bs[i] = .ok a := by
  intro bs
  induction bs with
  | nil => intro _; exact ⟨[], rfl, rfl, fun i h => absurd h (Nat.not_lt_zero _)⟩
  | cons b bs ih =>
    intro h
    obtain ⟨a, ha⟩ := h b (List.mem_cons_self ..)
    obtain ⟨anns, h1, h2, h3⟩ := ih (fun c hc => h c (List.mem_cons_of_mem _ hc))
    refine ⟨a :: anns, by simp only [annotateAll, ha, h1], by simp [h2], ?_⟩
    intro i hi
    cases i with
    | zero => exact ⟨a, rfl, ha⟩
    | succ i =>
      have hi' : i < bs.length := by simpa using hi
      obtain ⟨a', h4, h5⟩ := h3 i hi'
      exact ⟨a', by simpa using h4, by simpa using h5⟩

end Pipeline
end EtkVerif
