/-
Edges of `cfgNew`, the behaviour of `refine`, and the queries: for every
interpretation `I` the edge leading to the node `target anns I et` (where the
exit terms, evaluated under `I`, send control) is in the graph and its query
is satisfied by `I`.
-/
import EtkVerif.Cfg.ByOffset
import EtkVerif.Smt.Lemmas
namespace EtkVerif
namespace Cfg
open Annot Smt Evm

/-! ### edges of `cfgNew` -/

def ftNode : Option Nat → Node
  | some j => .block j
  | none => .terminate

/-- The targets `edgesOf` gives a block with exit `ex`. -/
def EdgeSpec (m : List (Nat × Nat)) (jts : List Nat) (ex : Exit) (n : Node) : Prop :=
  match ex with
  | .terminate => n = .terminate
  | .fallThrough f => n = ftNode (lookup m f)
  | .unconditional _ => n = .badJump ∨ ∃ j ∈ jts, n = .block j
  | .branch _ _ f => n = ftNode (lookup m f) ∨ n = .badJump ∨ ∃ j ∈ jts, n = .block j

theorem mem_edgesOf (m : List (Nat × Nat)) (jts : List Nat) (idx : Nat) (b : Annotated) (e : Nat × Node) :
    e ∈ edgesOf m jts idx b ↔ e.1 = idx ∧ EdgeSpec m jts b.exit e.2 := by
  obtain ⟨i, n⟩ := e
  unfold edgesOf EdgeSpec
  generalize b.exit = ex
  cases ex with
  | terminate => simp [fallThroughOf]
  | fallThrough f =>
    cases hl : lookup m f <;> simp [fallThroughOf, ftNode, hl]
  | unconditional e =>
    simp only [fallThroughOf, Option.bind_none, List.nil_append, List.mem_append, List.mem_cons,
      List.not_mem_nil, or_false, Prod.mk.injEq, List.mem_map, List.mem_filter]
    constructor
    · rintro (⟨h1, h2⟩ | ⟨j, ⟨hj, -⟩, h1, h2⟩)
      · exact ⟨h1, Or.inl h2⟩
      · exact ⟨h1.symm, Or.inr ⟨j, hj, h2.symm⟩⟩
    · rintro ⟨h1, h2 | ⟨j, hj, h2⟩⟩
      · exact Or.inl ⟨h1, h2⟩
      · exact Or.inr ⟨j, ⟨hj, by simp⟩, h1.symm, h2.symm⟩
  | branch c d f =>
    rcases Option.eq_none_or_eq_some (lookup m f) with hl | ⟨k, hl⟩
    · simp only [fallThroughOf, Option.bind_some, hl]
      simp only [ftNode, List.mem_append, List.mem_cons, List.not_mem_nil, or_false, Prod.mk.injEq,
        List.mem_map, List.mem_filter]
      constructor
      · rintro ((⟨h1, h2⟩ | ⟨h1, h2⟩) | ⟨j, ⟨hj, -⟩, h1, h2⟩)
        · exact ⟨h1, Or.inl h2⟩
        · exact ⟨h1, Or.inr (Or.inl h2)⟩
        · exact ⟨h1.symm, Or.inr (Or.inr ⟨j, hj, h2.symm⟩)⟩
      · rintro ⟨h1, h2 | h2 | ⟨j, hj, h2⟩⟩
        · exact Or.inl (Or.inl ⟨h1, h2⟩)
        · exact Or.inl (Or.inr ⟨h1, h2⟩)
        · exact Or.inr ⟨j, ⟨hj, by simp⟩, h1.symm, h2.symm⟩
    · simp only [fallThroughOf, Option.bind_some, hl]
      simp only [ftNode, List.mem_append, List.mem_cons, List.not_mem_nil, or_false, Prod.mk.injEq,
        List.mem_map, List.mem_filter]
      constructor
      · rintro ((⟨h1, h2⟩ | ⟨h1, h2⟩) | ⟨j, ⟨hj, -⟩, h1, h2⟩)
        · exact ⟨h1, Or.inl h2⟩
        · exact ⟨h1, Or.inr (Or.inl h2)⟩
        · exact ⟨h1.symm, Or.inr (Or.inr ⟨j, hj, h2.symm⟩)⟩
      · rintro ⟨h1, h2 | h2 | ⟨j, hj, h2⟩⟩
        · exact Or.inl (Or.inl ⟨h1, h2⟩)
        · exact Or.inl (Or.inr ⟨h1, h2⟩)
        · by_cases hjk : j = k
          · subst hjk
            exact Or.inl (Or.inl ⟨h1, h2⟩)
          · exact Or.inr ⟨j, ⟨hj, by simpa using hjk⟩, h1.symm, h2.symm⟩

theorem edgesOf_nodup (m : List (Nat × Nat)) (jts : List Nat) (hj : jts.Nodup) (idx : Nat) (b : Annotated) :
    (edgesOf m jts idx b).Nodup := by
  have hmap : ∀ (p : Nat → Bool), ((jts.filter p).map (fun j => (idx, Node.block j))).Nodup := by
    intro p
    refine List.pairwise_map.2 ((hj.filter p).imp ?_)
    intro x y hxy h
    exact hxy (by injection h with _ h2; injection h2)
  unfold edgesOf
  generalize b.exit = ex
  cases ex with
  | terminate => simp [fallThroughOf]
  | fallThrough f => cases hl : lookup m f <;> simp [fallThroughOf, hl]
  | unconditional e =>
    simp only [fallThroughOf, Option.bind_none, List.nil_append]
    rw [List.nodup_append]
    refine ⟨by simp, hmap _, ?_⟩
    intro x hx y hy
    simp only [List.mem_cons, List.not_mem_nil, or_false] at hx
    simp only [List.mem_map] at hy
    obtain ⟨j, -, rfl⟩ := hy
    subst hx
    intro h
    injection h with _ h2
    cases h2
  | branch c d f =>
    rcases Option.eq_none_or_eq_some (lookup m f) with hl | ⟨k, hl⟩
    · simp only [fallThroughOf, Option.bind_some, hl]
      rw [List.nodup_append]
      refine ⟨by simp, hmap _, ?_⟩
      intro x hx y hy
      simp only [List.mem_map] at hy
      obtain ⟨j, -, rfl⟩ := hy
      simp only [List.mem_append, List.mem_cons, List.not_mem_nil, or_false] at hx
      rcases hx with rfl | rfl <;> (intro h; injection h with _ h2; cases h2)
    · simp only [fallThroughOf, Option.bind_some, hl]
      rw [List.nodup_append]
      refine ⟨by simp, hmap _, ?_⟩
      intro x hx y hy
      simp only [List.mem_map, List.mem_filter] at hy
      obtain ⟨j, ⟨-, hjk⟩, rfl⟩ := hy
      simp only [List.mem_append, List.mem_cons, List.not_mem_nil, or_false] at hx
      rcases hx with rfl | rfl
      · intro h
        injection h with _ h2
        injection h2 with h3
        simp [h3] at hjk
      · intro h; injection h with _ h2; cases h2

theorem cfgNew_ok (anns : List Annotated) (g : Graph) (hg : cfgNew anns = .ok g) :
    ∃ m, byOffset anns = some m ∧ g.blocks = anns ∧
      g.edges = m.flatMap (fun p => match anns[p.2]? with
            | some b => edgesOf m (jtsOf anns) p.2 b
            | none => []) := by
  unfold cfgNew at hg
  split at hg
  · cases hg
  · next m hm =>
    injection hg with hg
    subst hg
    exact ⟨m, hm, rfl, rfl⟩

theorem mem_edges (anns : List Annotated) (g : Graph) (hg : cfgNew anns = .ok g)
    (m : List (Nat × Nat)) (hm : byOffset anns = some m) (i : Nat) (n : Node) :
    (i, n) ∈ g.edges ↔ ∃ a, anns[i]? = some a ∧ EdgeSpec m (jtsOf anns) a.exit n := by
  obtain ⟨m', hm', -, he⟩ := cfgNew_ok anns g hg
  rw [hm] at hm'
  injection hm' with hm'
  subst hm'
  have ok := byOffset_ok anns m hm
  rw [he, List.mem_flatMap]
  constructor
  · rintro ⟨⟨off, idx⟩, hp, hmem⟩
    simp only [] at hmem
    cases hb : anns[idx]? with
    | none => rw [hb] at hmem; cases hmem
    | some b =>
      rw [hb] at hmem
      simp only [] at hmem
      obtain ⟨h1, h2⟩ := (mem_edgesOf _ _ _ _ _).1 hmem
      simp only [] at h1 h2
      subst h1
      exact ⟨b, hb, h2⟩
  · rintro ⟨a, ha, hs⟩
    refine ⟨(a.offset, i), (ok.mem _ _).2 ⟨a, ha, rfl⟩, ?_⟩
    simp only [ha]
    exact (mem_edgesOf _ _ _ _ _).2 ⟨rfl, hs⟩

theorem edges_nodup (anns : List Annotated) (g : Graph) (hg : cfgNew anns = .ok g) : g.edges.Nodup := by
  obtain ⟨m, hm, -, he⟩ := cfgNew_ok anns g hg
  have ok := byOffset_ok anns m hm
  rw [he]
  unfold List.Nodup
  rw [List.pairwise_flatMap]
  constructor
  · intro p _
    cases hb : anns[p.2]? with
    | none => simp
    | some b => exact edgesOf_nodup _ _ (jtsOf_nodup anns) _ _
  · refine List.Pairwise.imp_of_mem ?_ ok.asc
    rintro ⟨o1, i1⟩ ⟨o2, i2⟩ hp hq hlt x hx y hy hxy
    simp only [] at hx hy hlt
    subst hxy
    cases hb1 : anns[i1]? with
    | none => rw [hb1] at hx; cases hx
    | some b1 =>
      cases hb2 : anns[i2]? with
      | none => rw [hb2] at hy; cases hy
      | some b2 =>
        rw [hb1] at hx
        rw [hb2] at hy
        have e1 := ((mem_edgesOf _ _ _ _ _).1 hx).1
        have e2 := ((mem_edgesOf _ _ _ _ _).1 hy).1
        have e : i1 = i2 := e1.symm.trans e2
        subst e
        obtain ⟨a1, ha1, ho1⟩ := (ok.mem _ _).1 hp
        obtain ⟨a2, ha2, ho2⟩ := (ok.mem _ _).1 hq
        rw [ha1] at ha2
        injection ha2 with ha2
        subst ha2
        omega

/-! ### `refine` -/

/-- `refine` keeps an edge with this answer. -/
def KeepS (sat : List BTerm → Bool) : Answer → Prop
  | .const k => k = true
  | .ask q => sat q = true
  | .panic _ => False

theorem go_ok (sat : List BTerm → Bool) (g : Graph) (es r : List (Nat × Node))
    (h : refine.go sat g es = .ok r) :
    r.Sublist es ∧ ∀ e, e ∈ r ↔ e ∈ es ∧ KeepS sat (queryOf g e) := by
  induction es generalizing r with
  | nil =>
    simp [refine.go] at h
    subst h
    simp
  | cons e rest ih =>
    unfold refine.go at h
    cases hq : queryOf g e with
    | panic p => rw [hq] at h; cases h
    | const k =>
      rw [hq] at h
      simp only [] at h
      cases hr : refine.go sat g rest with
      | error p => rw [hr] at h; cases h
      | ok r' =>
        rw [hr] at h
        obtain ⟨s1, s2⟩ := ih r' hr
        simp only [Except.map] at h
        injection h with h
        subst h
        cases k with
        | true =>
          refine ⟨s1.cons_cons e, ?_⟩
          intro x
          simp only [if_true, List.mem_cons, s2]
          constructor
          · rintro (rfl | ⟨h1, h2⟩)
            · exact ⟨Or.inl rfl, by rw [hq]; rfl⟩
            · exact ⟨Or.inr h1, h2⟩
          · rintro ⟨rfl | h1, h2⟩
            · exact Or.inl rfl
            · exact Or.inr ⟨h1, h2⟩
        | false =>
          refine ⟨s1.cons e, ?_⟩
          intro x
          simp only [Bool.false_eq_true, if_false, List.mem_cons, s2]
          constructor
          · rintro ⟨h1, h2⟩
            exact ⟨Or.inr h1, h2⟩
          · rintro ⟨rfl | h1, h2⟩
            · rw [hq] at h2; cases h2
            · exact ⟨h1, h2⟩
    | ask q =>
      rw [hq] at h
      simp only [] at h
      cases hr : refine.go sat g rest with
      | error p => rw [hr] at h; cases h
      | ok r' =>
        rw [hr] at h
        obtain ⟨s1, s2⟩ := ih r' hr
        simp only [Except.map] at h
        injection h with h
        subst h
        cases hk : sat q with
        | true =>
          refine ⟨s1.cons_cons e, ?_⟩
          intro x
          simp only [if_true, List.mem_cons, s2]
          constructor
          · rintro (rfl | ⟨h1, h2⟩)
            · exact ⟨Or.inl rfl, by rw [hq]; exact hk⟩
            · exact ⟨Or.inr h1, h2⟩
          · rintro ⟨rfl | h1, h2⟩
            · exact Or.inl rfl
            · exact Or.inr ⟨h1, h2⟩
        | false =>
          refine ⟨s1.cons e, ?_⟩
          intro x
          simp only [Bool.false_eq_true, if_false, List.mem_cons, s2]
          constructor
          · rintro ⟨h1, h2⟩
            exact ⟨Or.inr h1, h2⟩
          · rintro ⟨rfl | h1, h2⟩
            · rw [hq] at h2
              simp only [KeepS] at h2
              rw [hk] at h2; cases h2
            · exact ⟨h1, h2⟩

theorem go_total (sat : List BTerm → Bool) (g : Graph) (es : List (Nat × Node))
    (h : ∀ e ∈ es, ∀ p, queryOf g e ≠ .panic p) : ∃ r, refine.go sat g es = .ok r := by
  induction es with
  | nil => exact ⟨[], rfl⟩
  | cons e rest ih =>
    obtain ⟨r, hr⟩ := ih (fun x hx => h x (List.mem_cons_of_mem _ hx))
    unfold refine.go
    cases hq : queryOf g e with
    | panic p => exact absurd hq (h e List.mem_cons_self p)
    | const k => simp only [hr, Except.map]; exact ⟨_, rfl⟩
    | ask q => simp only [hr, Except.map]; exact ⟨_, rfl⟩

theorem refine_ok (sat : List BTerm → Bool) (g g' : Graph) (h : refine sat g = .ok g') :
    g'.blocks = g.blocks ∧ g'.edges.Sublist g.edges ∧
      ∀ e, e ∈ g'.edges ↔ e ∈ g.edges ∧ KeepS sat (queryOf g e) := by
  unfold refine at h
  cases hr : refine.go sat g g.edges with
  | error p => rw [hr] at h; cases h
  | ok r =>
    rw [hr] at h
    simp only [Except.map] at h
    injection h with h
    subst h
    obtain ⟨s1, s2⟩ := go_ok sat g _ r hr
    exact ⟨rfl, s1, s2⟩

theorem refine_total_of (sat : List BTerm → Bool) (g : Graph)
    (h : ∀ e ∈ g.edges, ∀ p, queryOf g e ≠ .panic p) : ∃ g', refine sat g = .ok g' := by
  obtain ⟨r, hr⟩ := go_total sat g g.edges h
  unfold refine
  rw [hr]
  exact ⟨_, rfl⟩

/-! ### terms -/

@[simp] theorem eval_w256 (I : Interp) (v : Nat) : (w256 v).eval I = v % 2 ^ 256 := by
  simp [w256, Term.eval]

@[simp] theorem eval_zero (I : Interp) : zero.eval I = 0 := by simp [zero]

@[simp] theorem eval_cmp_eq (I : Interp) (a b : Term) :
    (BTerm.cmp .eq a b).eval I = (a.eval I == b.eval I) := by simp [BTerm.eval, evalCmp]

@[simp] theorem eval_not (I : Interp) (c : BTerm) : (BTerm.not c).eval I = !(c.eval I) := by
  simp [BTerm.eval]

@[simp] theorem eval_ite (I : Interp) (c : BTerm) (a b : Term) :
    (Term.ite c a b).eval I = if c.eval I then a.eval I else b.eval I := by simp [Term.eval]

/-! ### the node an interpretation selects -/

def jumpNode (anns : List Annotated) (v : Nat) : Node :=
  match findIdx anns v with
  | some j => if (anns[j]?.map (·.jumpTarget)).getD false then .block j else .badJump
  | none => .badJump

def target (anns : List Annotated) (I : Interp) : ExitT → Node
  | .terminate => .terminate
  | .fallThrough f => ftNode (findIdx anns f)
  | .unconditional u => jumpNode anns (u.eval I)
  | .branch c d f => if c.eval I = 0 then ftNode (findIdx anns f) else jumpNode anns (d.eval I)

/-- `I` satisfies the query (or the query is trivially kept). -/
def Kept (I : Interp) : Answer → Prop
  | .const k => k = true
  | .ask q => Holds I q
  | .panic _ => False

theorem Kept.keepS (sat : List BTerm → Bool) (hsat : SoundSat sat) (I : Interp) (ans : Answer)
    (h : Kept I ans) : KeepS sat ans := by
  cases ans with
  | const k => exact h
  | panic p => exact h
  | ask q =>
    show sat q = true
    cases hs : sat q with
    | true => rfl
    | false => exact absurd ⟨I, h⟩ (hsat q hs)

theorem jumpNode_cases (anns : List Annotated) (hd : DistinctOffsets anns) (v : Nat) :
    (∃ j c, jumpNode anns v = .block j ∧ anns[j]? = some c ∧ c.offset = v ∧ c.jumpTarget = true) ∨
    (jumpNode anns v = .badJump ∧
      ∀ (k : Nat) (c : Annotated), anns[k]? = some c → c.jumpTarget = true → c.offset ≠ v) := by
  unfold jumpNode
  cases hf : findIdx anns v with
  | none =>
    refine Or.inr ⟨rfl, ?_⟩
    intro k c hk _
    exact findIdx_none anns v hf k c hk
  | some j =>
    obtain ⟨c, hc1, hc2⟩ := findIdx_some anns v j hf
    cases hjt : c.jumpTarget with
    | true =>
      refine Or.inl ⟨j, c, ?_, hc1, hc2, hjt⟩
      simp [hc1, hjt]
    | false =>
      refine Or.inr ⟨by simp [hc1, hjt], ?_⟩
      intro k c' hk hjt' he
      have := hd k j c' c hk hc1 (he.trans hc2.symm)
      subst this
      rw [hc1] at hk
      injection hk with hk
      subst hk
      rw [hjt] at hjt'
      cases hjt'

theorem mem_jtOffsets' (anns : List Annotated) (g : Graph) (hb : g.blocks = anns) (m : List (Nat × Nat))
    (hm : byOffset anns = some m) (o : Nat) :
    o ∈ jtOffsets g ↔
      ∃ (i : Nat) (a : Annotated), anns[i]? = some a ∧ a.offset = o ∧ a.jumpTarget = true := by
  obtain ⟨b, es⟩ := g
  simp only [] at hb
  subst hb
  exact mem_jtOffsets _ es m hm o

theorem holds_distinct (I : Interp) (offs : List Nat) (t : Term)
    (h : ∀ o ∈ offs, o % 2 ^ 256 ≠ t.eval I) :
    ∀ b ∈ offs.map (fun o => BTerm.not (.cmp .eq (w256 o) t)), b.eval I = true := by
  intro b hb
  obtain ⟨o, ho, rfl⟩ := List.mem_map.1 hb
  simpa using h o ho

/-- The edge an interpretation selects is in the graph, and its query is satisfied. -/
theorem kept_edge (anns : List Annotated) (g : Graph) (hg : cfgNew anns = .ok g)
    (hsmall : ∀ a ∈ anns, a.offset < 2 ^ 256)
    (i : Nat) (a : Annotated) (ha : anns[i]? = some a) (et : ExitT) (het : exitToTerms a.exit = .ok et)
    (I : Interp) :
    (i, target anns I et) ∈ g.edges ∧ Kept I (queryOf g (i, target anns I et)) := by
  obtain ⟨m, hm, hbl, -⟩ := cfgNew_ok anns g hg
  have ok := byOffset_ok anns m hm
  have hlk := lookup_eq_findIdx anns m ok
  have hsm : ∀ (j : Nat) (c : Annotated), anns[j]? = some c → c.offset % 2 ^ 256 = c.offset := by
    intro j c hc
    exact Nat.mod_eq_of_lt (hsmall c (List.mem_of_getElem? hc))
  rw [mem_edges anns g hg m hm]
  have hga : g.blocks[i]? = some a := by rw [hbl]; exact ha
  -- facts about the three kinds of queries
  have hbad : ∀ (t : Term),
      (∀ (k : Nat) (c : Annotated), anns[k]? = some c → c.jumpTarget = true → c.offset ≠ t.eval I) →
      ∀ b ∈ (jtOffsets g).map (fun o => BTerm.not (.cmp .eq (w256 o) t)), b.eval I = true := by
    intro t ht
    apply holds_distinct
    intro o ho
    obtain ⟨k, c, hk, hco, hjt⟩ := (mem_jtOffsets' anns g hbl m hm o).1 ho
    rw [← hco, hsm k c hk]
    exact ht k c hk hjt
  cases hx : a.exit with
  | terminate =>
    rw [hx] at het
    simp only [exitToTerms] at het
    injection het with het
    subst het
    refine ⟨⟨a, ha, ?_⟩, ?_⟩
    · rw [hx]; rfl
    · simp [target, queryOf, hga, qTerminate, hx, exitToTerms, Kept]
  | fallThrough f =>
    rw [hx] at het
    simp only [exitToTerms] at het
    injection het with het
    subst het
    refine ⟨⟨a, ha, ?_⟩, ?_⟩
    · rw [hx]; simp only [EdgeSpec, target, hlk]
    · simp only [target]
      cases hf : findIdx anns f with
      | none => simp [ftNode, queryOf, hga, qTerminate, hx, exitToTerms, Kept]
      | some j =>
        obtain ⟨c, hc1, hc2⟩ := findIdx_some anns f j hf
        have hgc : g.blocks[j]? = some c := by rw [hbl]; exact hc1
        simp [ftNode, queryOf, hga, hgc, qBlock, hx, exitToTerms, Kept, hc2]
  | unconditional e =>
    rw [hx] at het
    simp only [exitToTerms] at het
    split at het
    · next u n hu =>
      injection het with het
      subst het
      simp only [target]
      rcases jumpNode_cases anns ok.distinct (u.eval I) with ⟨j, c, hj, hc1, hc2, hc3⟩ | ⟨hj, hno⟩
      · rw [hj]
        refine ⟨⟨a, ha, ?_⟩, ?_⟩
        · rw [hx]; exact Or.inr ⟨j, (mem_jtsOf anns j).2 ⟨c, hc1, hc3⟩, rfl⟩
        · have hgc : g.blocks[j]? = some c := by rw [hbl]; exact hc1
          simp only [queryOf, hga, hgc, qBlock, hx, exitToTerms, hu, Kept, Holds]
          intro b hb
          simp only [List.mem_cons, List.not_mem_nil, or_false] at hb
          subst hb
          rw [eval_cmp_eq, eval_w256, hsm j c hc1, hc2]
          exact beq_self_eq_true _
      · rw [hj]
        refine ⟨⟨a, ha, ?_⟩, ?_⟩
        · rw [hx]; exact Or.inl rfl
        · simp only [queryOf, hga, qBadJump, hx, exitToTerms, hu, Kept, Holds]
          exact hbad u hno
    · cases het
  | branch ce te f =>
    rw [hx] at het
    simp only [exitToTerms] at het
    split at het
    · cases het
    · next dt n hd =>
      split at het
      · cases het
      · next ct n' hc =>
        injection het with het
        subst het
        simp only [target]
        by_cases hc0 : ct.eval I = 0
        · rw [if_pos hc0]
          refine ⟨⟨a, ha, ?_⟩, ?_⟩
          · rw [hx]
            show _ = ftNode (lookup m f) ∨ _
            rw [hlk]
            exact Or.inl rfl
          · cases hf : findIdx anns f with
            | none =>
              simp only [ftNode, queryOf, hga, qTerminate, hx, exitToTerms, hd, hc, Kept, Holds]
              intro b hb
              simp only [List.mem_cons, List.not_mem_nil, or_false] at hb
              subst hb
              simp [hc0]
            | some j =>
              obtain ⟨c, hc1, hc2⟩ := findIdx_some anns f j hf
              have hgc : g.blocks[j]? = some c := by rw [hbl]; exact hc1
              simp only [ftNode, queryOf, hga, hgc, qBlock, hx, exitToTerms, hd, hc, Kept, Holds]
              intro b hb
              simp only [List.mem_cons, List.not_mem_nil, or_false] at hb
              subst hb
              simp [hc0, hc2]
        · rw [if_neg hc0]
          rcases jumpNode_cases anns ok.distinct (dt.eval I) with ⟨j, c, hj, hc1, hc2, hc3⟩ | ⟨hj, hno⟩
          · rw [hj]
            refine ⟨⟨a, ha, ?_⟩, ?_⟩
            · rw [hx]; exact Or.inr (Or.inr ⟨j, (mem_jtsOf anns j).2 ⟨c, hc1, hc3⟩, rfl⟩)
            · have hgc : g.blocks[j]? = some c := by rw [hbl]; exact hc1
              simp only [queryOf, hga, hgc, qBlock, hx, exitToTerms, hd, hc, Kept, Holds]
              intro b hb
              simp only [List.mem_cons, List.not_mem_nil, or_false] at hb
              subst hb
              have hcf : (ct.eval I == 0) = false := by simpa using hc0
              have hv : (w256 c.offset).eval I = dt.eval I := by rw [eval_w256, hsm j c hc1, hc2]
              simp only [eval_cmp_eq, eval_ite, eval_zero, hcf, hv]
              simp
          · rw [hj]
            refine ⟨⟨a, ha, ?_⟩, ?_⟩
            · rw [hx]; exact Or.inr (Or.inl rfl)
            · simp only [queryOf, hga, qBadJump, hx, exitToTerms, hd, hc, Kept, Holds]
              intro b hb
              rcases List.mem_cons.1 hb with rfl | hb
              · simp only [eval_not, eval_cmp_eq, eval_zero]
                have : (0 == ct.eval I) = false := by
                  simp only [beq_eq_false_iff_ne, ne_eq]
                  exact fun h => hc0 h.symm
                rw [this]; rfl
              · exact hbad dt hno b hb

/-! ### translation of the annotator's exits -/

def envZero : Env :=
  ⟨0, 0, 0, 0, 0, 0, 0, 0, 0, 0, 0, 0, 0, 0, fun _ => 0, fun _ => 0⟩

/-- The interpretation an execution induces. -/
def mkInterp (E : Env) (ρ : Nat → Word) (fr : Nat → Nat) : Interp where
  named := fun n => match n with
    | .var i => (ρ i).toNat
    | .address => E.address.toNat
    | .origin => E.origin.toNat
    | .caller => E.caller.toNat
    | .callvalue => E.callvalue.toNat
    | .calldatasize => E.calldatasize.toNat
    | .codesize => E.codesize.toNat
    | .gasprice => E.gasprice.toNat
    | .coinbase => E.coinbase.toNat
    | .timestamp => E.timestamp.toNat
    | .number => E.number.toNat
    | .difficulty => E.difficulty.toNat
    | .gaslimit => E.gaslimit.toNat
    | .chainid => E.chainid.toNat
    | .basefee => E.basefee.toNat
  fresh := fr
  uf := fun u x => match u with
    | .calldataload => (E.calldataload (BitVec.ofNat 256 x)).toNat
    | .blockhash => (E.blockhash (BitVec.ofNat 256 x)).toNat
  pow00 := 1

theorem mkInterp_agrees (E : Env) (ρ : Nat → Word) (fr : Nat → Nat) : Agrees (mkInterp E ρ fr) E ρ := by
  have h : ∀ w : Word, w.toNat % 2 ^ 256 = w.toNat := fun w => Nat.mod_eq_of_lt w.isLt
  constructor <;> (try intros) <;> (try exact h _) <;> rfl

/-- Well-formedness of the trees in an exit (as `annotate_wf` states it). -/
def Exit.wf : Exit → Prop
  | .unconditional e => e.wf = true
  | .branch c d _ => c.wf = true ∧ d.wf = true
  | _ => True

/-- The exit terms exist, have the exit's shape, and under the interpretation
induced by an execution they evaluate to what the expressions evaluate to. -/
theorem exitToTerms_sound (E : Env) (ω : Nat → Word) (ρ : Nat → Word) (ex : Exit) (hwf : Exit.wf ex) :
    ∃ et I, exitToTerms ex = .ok et ∧
      (match ex, et with
       | .terminate, .terminate => True
       | .fallThrough f, .fallThrough f' => f' = f
       | .unconditional e, .unconditional u => u.eval I = (Tree.eval E ω ρ e).toNat
       | .branch c d f, .branch ct dt f' => f' = f ∧
           ct.eval I = (Tree.eval E ω ρ c).toNat ∧ dt.eval I = (Tree.eval E ω ρ d).toNat
       | _, _ => False) := by
  cases ex with
  | terminate => exact ⟨.terminate, mkInterp E ρ (fun _ => 0), rfl, trivial⟩
  | fallThrough f => exact ⟨.fallThrough f, mkInterp E ρ (fun _ => 0), rfl, rfl⟩
  | unconditional e =>
    obtain ⟨u, n', hu, -, -, vals, hv⟩ := toTerm_sound E ω ρ e hwf 0
    refine ⟨.unconditional u, mkInterp E ρ vals, ?_, ?_⟩
    · simp [exitToTerms, hu]
    · exact hv _ (mkInterp_agrees E ρ vals) (fun _ _ _ => rfl)
  | branch c d f =>
    obtain ⟨hc, hd⟩ := hwf
    obtain ⟨dt, n, hdt, -, -, vals1, hv1⟩ := toTerm_sound E ω ρ d hd 0
    obtain ⟨ct, n', hct, hle, -, vals2, hv2⟩ := toTerm_sound E ω ρ c hc n
    refine ⟨.branch ct dt f, mkInterp E ρ (fun k => if k < n then vals1 k else vals2 k), ?_, rfl, ?_, ?_⟩
    · simp [exitToTerms, hdt, hct]
    · refine hv2 _ (mkInterp_agrees E ρ _) ?_
      intro k h1 _
      show (if k < n then vals1 k else vals2 k) = vals2 k
      rw [if_neg (by omega)]
    · refine hv1 _ (mkInterp_agrees E ρ _) ?_
      intro k _ h2
      show (if k < n then vals1 k else vals2 k) = vals1 k
      rw [if_pos h2]

/-- The node control goes to when the exit's destination has value `v` and its
condition value `c`. -/
def targetOf (anns : List Annotated) : Exit → Nat → Nat → Node
  | .terminate, _, _ => .terminate
  | .fallThrough f, _, _ => ftNode (findIdx anns f)
  | .unconditional _, v, _ => jumpNode anns v
  | .branch _ _ f, v, c => if c = 0 then ftNode (findIdx anns f) else jumpNode anns v

/-- Every such node is the target of an edge of the graph as first built. -/
theorem targetOf_mem (anns : List Annotated) (g : Graph) (hg : cfgNew anns = .ok g)
    (i : Nat) (a : Annotated) (ha : anns[i]? = some a) (v c : Nat) :
    (i, targetOf anns a.exit v c) ∈ g.edges := by
  obtain ⟨m, hm, hbl, -⟩ := cfgNew_ok anns g hg
  have ok := byOffset_ok anns m hm
  have hlk := lookup_eq_findIdx anns m ok
  rw [mem_edges anns g hg m hm]
  refine ⟨a, ha, ?_⟩
  have hj : ∀ v, jumpNode anns v = .badJump ∨ ∃ j ∈ jtsOf anns, jumpNode anns v = .block j := by
    intro v
    rcases jumpNode_cases anns ok.distinct v with ⟨j, c, hj, hc1, -, hc3⟩ | ⟨hj, -⟩
    · exact Or.inr ⟨j, (mem_jtsOf anns j).2 ⟨c, hc1, hc3⟩, hj⟩
    · exact Or.inl hj
  cases hx : a.exit with
  | terminate => rfl
  | fallThrough f => simp only [EdgeSpec, targetOf, hlk]
  | unconditional e => exact hj v
  | branch ce te f =>
    show _ = ftNode (lookup m f) ∨ _
    rw [hlk]
    simp only [targetOf]
    by_cases hc : c = 0
    · rw [if_pos hc]; exact Or.inl rfl
    · rw [if_neg hc]; exact Or.inr (hj v)

def destVal (I : Interp) : ExitT → Nat
  | .unconditional u => u.eval I
  | .branch _ d _ => d.eval I
  | _ => 0

def condVal (I : Interp) : ExitT → Nat
  | .branch c _ _ => c.eval I
  | _ => 0

theorem target_eq_targetOf (anns : List Annotated) (I : Interp) (ex : Exit) (et : ExitT)
    (h : exitToTerms ex = .ok et) :
    target anns I et = targetOf anns ex (destVal I et) (condVal I et) := by
  cases ex with
  | terminate => simp only [exitToTerms] at h; injection h with h; subst h; rfl
  | fallThrough f => simp only [exitToTerms] at h; injection h with h; subst h; rfl
  | unconditional e =>
    simp only [exitToTerms] at h
    split at h
    · injection h with h; subst h; rfl
    · cases h
  | branch c d f =>
    simp only [exitToTerms] at h
    split at h
    · cases h
    · split at h
      · cases h
      · injection h with h; subst h; rfl

/-- Translation of a well-formed exit succeeds and keeps the exit's shape. -/
def ExitShape (ex : Exit) : Prop :=
  match ex with
  | .terminate => exitToTerms ex = .ok .terminate
  | .fallThrough f => exitToTerms ex = .ok (.fallThrough f)
  | .unconditional _ => ∃ u, exitToTerms ex = .ok (.unconditional u)
  | .branch _ _ f => ∃ ct dt, exitToTerms ex = .ok (.branch ct dt f)

theorem exitToTerms_shape (ex : Exit) (hwf : Exit.wf ex) : ExitShape ex := by
  cases ex with
  | terminate => rfl
  | fallThrough f => rfl
  | unconditional e =>
    obtain ⟨u, n', hu, -⟩ := toTerm_sound envZero (fun _ => 0) (fun _ => 0) e hwf 0
    exact ⟨u, by simp [exitToTerms, hu]⟩
  | branch c d f =>
    obtain ⟨hc, hd⟩ := hwf
    obtain ⟨dt, n, hdt, -⟩ := toTerm_sound envZero (fun _ => 0) (fun _ => 0) d hd 0
    obtain ⟨ct, n', hct, -⟩ := toTerm_sound envZero (fun _ => 0) (fun _ => 0) c hc n
    exact ⟨ct, dt, by simp [exitToTerms, hdt, hct]⟩

end Cfg
end EtkVerif
