/-
Model of `etk_analyze::cfg::ControlFlowGraph`: `new`, the three query builders
(`shallow_block`, `shallow_bad_jump`, `shallow_terminate`), `refine_shallow`
against a solver oracle, and the node/edge content of `render`.
-/
import EtkVerif.Annot.Model
import EtkVerif.Smt.Translate
namespace EtkVerif
namespace Cfg
open Annot Smt

inductive Node
  | terminate
  | badJump
  | block (i : Nat)          -- index into the block list (petgraph index i + 2)
  deriving Repr, DecidableEq

structure Graph where
  blocks : List Annotated
  edges : List (Nat × Node)   -- (index of the source block, target), in insertion order

inductive Panic
  | duplicateOffset           -- `assert_eq!(replaced, None)`
  | unreachableExit           -- `unreachable!()` in a query builder
  | translate                 -- `to_z3` on an ill-formed expression
  deriving Repr, DecidableEq

/-- `by_offset`: (offset, block index) in ascending offset order (a `BTreeMap`). -/
def insertByOffset (m : List (Nat × Nat)) (off idx : Nat) : Option (List (Nat × Nat)) :=
  match m with
  | [] => some [(off, idx)]
  | (o, i) :: rest =>
    if off = o then none
    else if off < o then some ((off, idx) :: (o, i) :: rest)
    else (insertByOffset rest off idx).map ((o, i) :: ·)

def byOffset (blocks : List Annotated) : Option (List (Nat × Nat)) :=
  (blocks.zipIdx).foldl (fun acc (b, i) => acc.bind (fun m => insertByOffset m b.offset i)) (some [])

def lookup (m : List (Nat × Nat)) (off : Nat) : Option Nat := (m.find? (·.1 == off)).map (·.2)

/-- `Exit::fall_through`. -/
def fallThroughOf : Exit → Option Nat
  | .fallThrough f => some f
  | .branch _ _ f => some f
  | _ => none

/-- Edges `ControlFlowGraph::new` adds for the block with index `idx`. -/
def edgesOf (m : List (Nat × Nat)) (jumpTargets : List Nat) (idx : Nat) (b : Annotated) : List (Nat × Node) :=
  let ft := fallThroughOf b.exit
  let ftIdx : Option Nat := ft.bind (lookup m)
  let ftEdge : List (Nat × Node) := match ft with
    | none => []
    | some _ => match ftIdx with
      | some j => [(idx, .block j)]
      | none => [(idx, .terminate)]
  match b.exit with
  | .terminate => ftEdge ++ [(idx, .terminate)]
  | .fallThrough _ => ftEdge
  | _ =>
    ftEdge ++ [(idx, .badJump)] ++
      (jumpTargets.filter (fun j => some j ≠ ftIdx)).map (fun j => (idx, Node.block j))

/-- `ControlFlowGraph::new`. -/
def cfgNew (blocks : List Annotated) : Except Panic Graph :=
  match byOffset blocks with
  | none => .error .duplicateOffset
  | some m =>
    let jts := (blocks.zipIdx.filter (·.1.jumpTarget)).map (·.2)
    .ok { blocks := blocks,
          edges := m.flatMap (fun (_, idx) => match blocks[idx]? with
            | some b => edgesOf m jts idx b
            | none => []) }

/-! ### queries -/

inductive Answer
  | const (keep : Bool)              -- decided without the solver
  | ask (asserts : List BTerm)       -- keep unless the solver says unsat
  | panic (p : Panic)

/-- `Exit::to_z3`: target first, then condition, in one solver context. -/
inductive ExitT
  | terminate | fallThrough (f : Nat) | unconditional (u : Term) | branch (cond whenTrue : Term) (whenFalse : Nat)

def exitToTerms : Exit → Except Panic ExitT
  | .terminate => .ok .terminate
  | .fallThrough f => .ok (.fallThrough f)
  | .unconditional e => match toTerm e 0 with
    | .ok (u, _) => .ok (.unconditional u)
    | .error _ => .error .translate
  | .branch c d f => match toTerm d 0 with
    | .error _ => .error .translate
    | .ok (dt, n) => match toTerm c n with
      | .error _ => .error .translate
      | .ok (ct, _) => .ok (.branch ct dt f)

/-- `shallow_block(from, to)`. -/
def qBlock (src : Annotated) (toOffset : Nat) : Answer :=
  match exitToTerms src.exit with
  | .error p => .panic p
  | .ok .terminate => .panic .unreachableExit
  | .ok (.fallThrough f) => .const (f == toOffset)
  | .ok (.unconditional u) => .ask [.cmp .eq u (w256 toOffset)]
  | .ok (.branch c d f) => .ask [.cmp .eq (.ite (.cmp .eq c zero) (w256 f) d) (w256 toOffset)]

/-- `shallow_bad_jump(from)`; `jtOffsets` = offsets of jump-target blocks in ascending order. -/
def qBadJump (src : Annotated) (jtOffsets : List Nat) : Answer :=
  let distinct (ast : Term) : List BTerm := jtOffsets.map (fun o => BTerm.not (.cmp .eq (w256 o) ast))
  match exitToTerms src.exit with
  | .error p => .panic p
  | .ok (.fallThrough _) => .const false
  | .ok .terminate => .panic .unreachableExit
  | .ok (.unconditional u) => .ask (distinct u)
  | .ok (.branch c d _) => .ask (BTerm.not (.cmp .eq zero c) :: distinct d)

/-- `shallow_terminate(from)`. -/
def qTerminate (src : Annotated) : Answer :=
  match exitToTerms src.exit with
  | .error p => .panic p
  | .ok (.fallThrough _) => .const true
  | .ok .terminate => .const true
  | .ok (.unconditional _) => .panic .unreachableExit
  | .ok (.branch c _ _) => .ask [.cmp .eq zero c]

def jtOffsets (g : Graph) : List Nat :=
  match byOffset g.blocks with
  | none => []
  | some m => (m.filter (fun (_, i) => (g.blocks[i]?.map (·.jumpTarget)).getD false)).map (·.1)

/-- The query `refine_shallow` poses for an edge. -/
def queryOf (g : Graph) (e : Nat × Node) : Answer :=
  match g.blocks[e.1]? with
  | none => .panic .unreachableExit
  | some src =>
    match e.2 with
    | .block j => match g.blocks[j]? with
      | some dst => qBlock src dst.offset
      | none => .panic .unreachableExit
    | .badJump => qBadJump src (jtOffsets g)
    | .terminate => qTerminate src

/-- `refine_shallow` against a solver oracle (`sat q = false` ⇔ the solver answered unsat). -/
def refine (sat : List BTerm → Bool) (g : Graph) : Except Panic Graph :=
  let rec go : List (Nat × Node) → Except Panic (List (Nat × Node))
    | [] => .ok []
    | e :: rest =>
      match queryOf g e with
      | .panic p => .error p
      | .const k => (go rest).map (fun r => if k then e :: r else r)
      | .ask q => (go rest).map (fun r => if sat q then e :: r else r)
  (go g.edges).map (fun es => { g with edges := es })

/-- Satisfying interpretation of a query. -/
def Holds (I : Interp) (q : List BTerm) : Prop := ∀ a ∈ q, a.eval I = true

/-- The single assumption about the solver: it answers *unsat* only for queries
with no satisfying interpretation. -/
def SoundSat (sat : List BTerm → Bool) : Prop := ∀ q, sat q = false → ¬ ∃ I, Holds I q

end Cfg
end EtkVerif
