/-
T-cfg0, T-cfg1, T-wf: the control-flow graph over-approximates every local
execution, before and after refinement by a sound solver, and is structurally
well formed.
-/
import EtkVerif.Cfg.Model
import EtkVerif.Smt.Lemmas
import EtkVerif.Annot.Lemmas
namespace EtkVerif
namespace Cfg
open Annot Smt Evm

/-- The annotated blocks come from basic blocks the annotator accepted, with
pairwise distinct offsets, sizes agreeing with the table, and all code below 2^16. -/
structure Setup (t : OpTable) (bs : List Blocks.Block) (anns : List Annotated) : Prop where
  len : anns.length = bs.length
  ann : ∀ i (h : i < bs.length), ∃ a, anns[i]? = some a ∧ annotate t bs[i] = .ok a
  sizes : ∀ b ∈ bs, SizesOK t b.ops
  small : ∀ b ∈ bs, b.offset + b.byteLen ≤ 65536
  distinct : ∀ i j, i < bs.length → j < bs.length → (bs[i]?.map (·.offset)) = (bs[j]?.map (·.offset)) → i = j

/-- The block (index) that starts at program counter `pc`, if any. -/
def blockAt (anns : List Annotated) (pc : Nat) : Option Nat :=
  (anns.zipIdx.find? (fun (a, _) => a.offset == pc)).map (·.2)

/-- Where EVM semantics sends control after a block's outcome: a jump lands on
the block starting at the destination if that block starts with a jumpdest,
and is a bad jump otherwise; falling through (or an untaken branch) continues
at the block starting at the fall-through offset, or halts when there is none
(end of code). -/
def successor (anns : List Annotated) : Outcome → Node
  | .halt => .terminate
  | .fall pc _ => match blockAt anns pc with
    | some j => .block j
    | none => .terminate
  | .jump d _ => match blockAt anns d.toNat with
    | some j => if (anns[j]?.map (·.jumpTarget)).getD false then .block j else .badJump
    | none => .badJump
  | .jumpi d c f _ =>
    if c.toNat = 0 then
      match blockAt anns f with
      | some j => .block j
      | none => .terminate
    else match blockAt anns d.toNat with
      | some j => if (anns[j]?.map (·.jumpTarget)).getD false then .block j else .badJump
      | none => .badJump

/-- T-cfg0: every transfer of every local execution is an edge of the graph as first built. -/
theorem cfgNew_complete (t : OpTable) (bs : List Blocks.Block) (anns : List Annotated) (hS : Setup t bs anns)
    (g : Graph) (hg : cfgNew anns = .ok g)
    (i : Nat) (b : Blocks.Block) (a : Annotated) (hb : bs[i]? = some b) (ha : anns[i]? = some a)
    (E : Env) (ω : Nat → Word) (entry : List Word) (hd : a.inputs ≤ entry.length)
    (o : Outcome) (ho : execBlock E ω b.ops b.offset 0 entry = some o) :
    (i, successor anns o) ∈ g.edges := by
  sorry

/-- T-cfg1: with a sound solver, refinement keeps every such edge (it removes
only edges no execution can take). -/
theorem refine_complete (t : OpTable) (bs : List Blocks.Block) (anns : List Annotated) (hS : Setup t bs anns)
    (g g' : Graph) (hg : cfgNew anns = .ok g)
    (sat : List BTerm → Bool) (hsat : SoundSat sat) (hr : refine sat g = .ok g')
    (i : Nat) (b : Blocks.Block) (a : Annotated) (hb : bs[i]? = some b) (ha : anns[i]? = some a)
    (E : Env) (ω : Nat → Word) (entry : List Word) (hd : a.inputs ≤ entry.length)
    (o : Outcome) (ho : execBlock E ω b.ops b.offset 0 entry = some o) :
    (i, successor anns o) ∈ g'.edges := by
  sorry

/-- Refinement never panics on a graph built by `cfgNew` from accepted blocks
(the `unreachable!()` arms of the query builders are unreachable, and `to_z3`
is total on the annotator's expressions). -/
theorem refine_total (t : OpTable) (bs : List Blocks.Block) (anns : List Annotated) (hS : Setup t bs anns)
    (g : Graph) (hg : cfgNew anns = .ok g) (sat : List BTerm → Bool) :
    ∃ g', refine sat g = .ok g' := by
  sorry

/-- `cfgNew` succeeds when offsets are pairwise distinct. -/
theorem cfgNew_total (t : OpTable) (bs : List Blocks.Block) (anns : List Annotated) (hS : Setup t bs anns) :
    ∃ g, cfgNew anns = .ok g := by
  sorry

/-- T-wf (shape): one node per block (plus the two special nodes, which are
never the source of an edge by construction of `Graph`); every edge leaves an
existing block and leads to a jump-target block, to the block at the source's
fall-through offset, or to a special node; no edge is listed twice; refinement
only removes edges. -/
theorem cfg_shape (anns : List Annotated) (g : Graph) (hg : cfgNew anns = .ok g) :
    g.blocks = anns ∧ g.edges.Nodup ∧
    ∀ e ∈ g.edges, ∃ a, anns[e.1]? = some a ∧
      (match e.2 with
       | .block j => ∃ c, anns[j]? = some c ∧
           (c.jumpTarget = true ∨ fallThroughOf a.exit = some c.offset)
       | .terminate => True
       | .badJump => (match a.exit with | .unconditional _ => True | .branch _ _ _ => True | _ => False)) := by
  sorry

theorem refine_subgraph (sat : List BTerm → Bool) (g g' : Graph) (hr : refine sat g = .ok g') :
    g'.blocks = g.blocks ∧ g'.edges.Sublist g.edges := by
  sorry

/-- T-wf (successors): after refinement with a sound solver every block keeps at
least one successor, and a block that ends by falling through or halting has
exactly its one mandatory successor. -/
theorem refine_successors (t : OpTable) (bs : List Blocks.Block) (anns : List Annotated) (hS : Setup t bs anns)
    (g g' : Graph) (hg : cfgNew anns = .ok g)
    (sat : List BTerm → Bool) (hsat : SoundSat sat) (hr : refine sat g = .ok g')
    (i : Nat) (a : Annotated) (ha : anns[i]? = some a) :
    (∃ n, (i, n) ∈ g'.edges) ∧
    (match a.exit with
     | .terminate => ∀ n, (i, n) ∈ g'.edges ↔ n = .terminate
     | .fallThrough f => ∀ n, (i, n) ∈ g'.edges ↔
         n = (match blockAt anns f with | some j => Node.block j | none => Node.terminate)
     | _ => True) := by
  sorry

end Cfg
end EtkVerif
