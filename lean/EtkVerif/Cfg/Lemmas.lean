/-
T-cfg0, T-cfg1, T-wf: the control-flow graph over-approximates every local
execution, before and after refinement by a sound solver, and is structurally
well formed.
-/
import EtkVerif.Cfg.Model
import EtkVerif.Smt.Lemmas
import EtkVerif.Annot.Lemmas
import EtkVerif.Cfg.Queries
namespace EtkVerif
namespace Cfg
open Annot Smt Evm

/-- The annotated blocks come from basic blocks the annotator accepted, with
pairwise distinct offsets, sizes agreeing with the table, and all code below 2^16. -/
structure Setup (t : OpTable) (bs : List Blocks.Block) (anns : List Annotated) : Prop where
  len : anns.length = bs.length
  ann : ∀ i (h : i < bs.length), ∃ a, anns[i]? = some a ∧ annotate t bs[i] = .ok a
  sizes : ∀ b ∈ bs, SizesOK t b.ops
  small : ∀ b ∈ bs, b.offset + b.byteLen ≤ 65536
  distinct : ∀ i j, i < bs.length → j < bs.length → (bs[i]?.map (·.offset)) = (bs[j]?.map (·.offset)) → i = j

/-- The block (index) that starts at program counter `pc`, if any. -/
def blockAt (anns : List Annotated) (pc : Nat) : Option Nat :=
  (anns.zipIdx.find? (fun (a, _) => a.offset == pc)).map (·.2)

/-- Where EVM semantics sends control after a block's outcome: a jump lands on
the block starting at the destination if that block starts with a jumpdest,
and is a bad jump otherwise; falling through (or an untaken branch) continues
at the block starting at the fall-through offset, or halts when there is none
(end of code). -/
def successor (anns : List Annotated) : Outcome → Node
  | .halt => .terminate
  | .fall pc _ => match blockAt anns pc with
    | some j => .block j
    | none => .terminate
  | .jump d _ => match blockAt anns d.toNat with
    | some j => if (anns[j]?.map (·.jumpTarget)).getD false then .block j else .badJump
    | none => .badJump
  | .jumpi d c f _ =>
    if c.toNat = 0 then
      match blockAt anns f with
      | some j => .block j
      | none => .terminate
    else match blockAt anns d.toNat with
      | some j => if (anns[j]?.map (·.jumpTarget)).getD false then .block j else .badJump
      | none => .badJump


/-! ### consequences of `Setup` -/

theorem Setup.get {t : OpTable} {bs : List Blocks.Block} {anns : List Annotated} (hS : Setup t bs anns)
    (i : Nat) (a : Annotated) (ha : anns[i]? = some a) :
    ∃ b, bs[i]? = some b ∧ b ∈ bs ∧ annotate t b = .ok a := by
  have hi : i < bs.length := by
    rw [← hS.len]
    exact (List.getElem?_eq_some_iff.1 ha).1
  obtain ⟨a', h1, h2⟩ := hS.ann i hi
  rw [ha] at h1
  injection h1 with h1
  subst h1
  exact ⟨bs[i], List.getElem?_eq_getElem hi, List.getElem_mem hi, h2⟩

theorem Setup.small' {t : OpTable} {bs : List Blocks.Block} {anns : List Annotated} (hS : Setup t bs anns) :
    ∀ a ∈ anns, a.offset < 2 ^ 256 := by
  intro a ha
  obtain ⟨i, hi⟩ := List.getElem?_of_mem ha
  obtain ⟨b, -, hb, hann⟩ := hS.get i a hi
  have h1 := (annotate_extent t b a hann).1
  have h2 := hS.small b hb
  have : (65536 : Nat) < 2 ^ 256 := by decide
  omega

theorem Setup.distinct' {t : OpTable} {bs : List Blocks.Block} {anns : List Annotated} (hS : Setup t bs anns) :
    DistinctOffsets anns := by
  intro i j a b hi hj hab
  obtain ⟨bi, hbi, -, hai⟩ := hS.get i a hi
  obtain ⟨bj, hbj, -, haj⟩ := hS.get j b hj
  have h1 := (annotate_extent t bi a hai).1
  have h2 := (annotate_extent t bj b haj).1
  refine hS.distinct i j (List.getElem?_eq_some_iff.1 hbi).1 (List.getElem?_eq_some_iff.1 hbj).1 ?_
  rw [hbi, hbj]
  simp only [Option.map_some]
  rw [← h1, ← h2, hab]

theorem Setup.wf {t : OpTable} {bs : List Blocks.Block} {anns : List Annotated} (hS : Setup t bs anns)
    (i : Nat) (a : Annotated) (ha : anns[i]? = some a) : Exit.wf a.exit := by
  obtain ⟨b, -, -, hann⟩ := hS.get i a ha
  have h := (annotate_wf t b a hann).2
  cases hx : a.exit with
  | terminate => trivial
  | fallThrough f => trivial
  | unconditional e => rw [hx] at h; exact h
  | branch c d f => rw [hx] at h; exact h

/-- The execution's outcome is the one the annotated exit describes. -/
theorem Setup.exitAgrees {t : OpTable} {bs : List Blocks.Block} {anns : List Annotated} (hS : Setup t bs anns)
    (i : Nat) (b : Blocks.Block) (a : Annotated) (hb : bs[i]? = some b) (ha : anns[i]? = some a)
    (E : Env) (ω : Nat → Word) (entry : List Word) (hd : a.inputs ≤ entry.length)
    (o : Outcome) (ho : execBlock E ω b.ops b.offset 0 entry = some o) :
    ExitAgrees E ω entry a o := by
  obtain ⟨b', hb', hmem, hann⟩ := hS.get i a ha
  rw [hb] at hb'
  injection hb' with hb'
  subst hb'
  obtain ⟨o', ho', hag⟩ := annotate_sound t b a hann (hS.sizes b hmem) (hS.small b hmem) E ω entry hd
  rw [ho] at ho'
  injection ho' with ho'
  subst ho'
  exact hag

theorem blockAt_eq (anns : List Annotated) (pc : Nat) : blockAt anns pc = findIdx anns pc := rfl

/-- The EVM successor is the node selected by the values of the exit's expressions. -/
theorem successor_eq (anns : List Annotated) (E : Env) (ω : Nat → Word) (entry : List Word)
    (a : Annotated) (o : Outcome) (h : ExitAgrees E ω entry a o) :
    ∃ v c, successor anns o = targetOf anns a.exit v c ∧
      (match a.exit with
       | .unconditional e => (Tree.eval E ω (bind entry) e).toNat = v
       | .branch ce te _ => (Tree.eval E ω (bind entry) te).toNat = v ∧
           (Tree.eval E ω (bind entry) ce).toNat = c
       | _ => True) := by
  cases o with
  | halt =>
    have hx : a.exit = .terminate := h
    rw [hx]
    exact ⟨0, 0, rfl, trivial⟩
  | fall pc st =>
    obtain ⟨hx, -⟩ := h
    rw [hx]
    refine ⟨0, 0, ?_, trivial⟩
    simp only [successor, targetOf, blockAt_eq]
    cases findIdx anns pc <;> rfl
  | jump d st =>
    obtain ⟨⟨e, hx, he⟩, -⟩ := h
    rw [hx]
    refine ⟨d.toNat, 0, rfl, ?_⟩
    show (Tree.eval E ω (bind entry) e).toNat = d.toNat
    rw [he]
  | jumpi d c f st =>
    obtain ⟨⟨ce, te, hx, hte, hce⟩, -⟩ := h
    rw [hx]
    refine ⟨d.toNat, c.toNat, ?_, ?_⟩
    · simp only [successor, targetOf, blockAt_eq]
      by_cases hc : c.toNat = 0
      · rw [if_pos hc, if_pos hc]
        cases findIdx anns f <;> rfl
      · rw [if_neg hc, if_neg hc]
        rfl
    · show (Tree.eval E ω (bind entry) te).toNat = d.toNat ∧ (Tree.eval E ω (bind entry) ce).toNat = c.toNat
      rw [hte, hce]
      exact ⟨rfl, rfl⟩

/-- T-cfg0: every transfer of every local execution is an edge of the graph as first built. -/
theorem cfgNew_complete (t : OpTable) (bs : List Blocks.Block) (anns : List Annotated) (hS : Setup t bs anns)
    (g : Graph) (hg : cfgNew anns = .ok g)
    (i : Nat) (b : Blocks.Block) (a : Annotated) (hb : bs[i]? = some b) (ha : anns[i]? = some a)
    (E : Env) (ω : Nat → Word) (entry : List Word) (hd : a.inputs ≤ entry.length)
    (o : Outcome) (ho : execBlock E ω b.ops b.offset 0 entry = some o) :
    (i, successor anns o) ∈ g.edges := by
  have hag := hS.exitAgrees i b a hb ha E ω entry hd o ho
  obtain ⟨v, c, hs, -⟩ := successor_eq anns E ω entry a o hag
  rw [hs]
  exact targetOf_mem anns g hg i a ha v c

/-- T-cfg1: with a sound solver, refinement keeps every such edge (it removes
only edges no execution can take). -/
theorem refine_complete (t : OpTable) (bs : List Blocks.Block) (anns : List Annotated) (hS : Setup t bs anns)
    (g g' : Graph) (hg : cfgNew anns = .ok g)
    (sat : List BTerm → Bool) (hsat : SoundSat sat) (hr : refine sat g = .ok g')
    (i : Nat) (b : Blocks.Block) (a : Annotated) (hb : bs[i]? = some b) (ha : anns[i]? = some a)
    (E : Env) (ω : Nat → Word) (entry : List Word) (hd : a.inputs ≤ entry.length)
    (o : Outcome) (ho : execBlock E ω b.ops b.offset 0 entry = some o) :
    (i, successor anns o) ∈ g'.edges := by
  have hag := hS.exitAgrees i b a hb ha E ω entry hd o ho
  obtain ⟨v, c, hs, hv⟩ := successor_eq anns E ω entry a o hag
  obtain ⟨et, I, het, hI⟩ := exitToTerms_sound E ω (bind entry) a.exit (hS.wf i a ha)
  have htgt : successor anns o = target anns I et := by
    rw [hs, target_eq_targetOf anns I a.exit et het]
    cases hx : a.exit with
    | terminate => rfl
    | fallThrough f => rfl
    | unconditional e =>
      rw [hx] at hI hv
      cases et with
      | unconditional u =>
        simp only [] at hI hv
        subst hv
        simp only [targetOf, destVal, hI]
      | _ => exact absurd hI id
    | branch ce te f =>
      rw [hx] at hI hv
      cases et with
      | branch ct dt f' =>
        simp only [] at hI hv
        obtain ⟨rfl, h1, h2⟩ := hI
        obtain ⟨rfl, rfl⟩ := hv
        simp only [targetOf, destVal, condVal, h1, h2]
      | _ => exact absurd hI id
  obtain ⟨h1, h2⟩ := kept_edge anns g hg hS.small' i a ha et het I
  rw [htgt]
  exact ((refine_ok sat g g' hr).2.2 _).2 ⟨h1, Kept.keepS sat hsat I _ h2⟩

/-- Refinement never panics on a graph built by `cfgNew` from accepted blocks
(the `unreachable!()` arms of the query builders are unreachable, and `to_z3`
is total on the annotator's expressions). -/
theorem refine_total (t : OpTable) (bs : List Blocks.Block) (anns : List Annotated) (hS : Setup t bs anns)
    (g : Graph) (hg : cfgNew anns = .ok g) (sat : List BTerm → Bool) :
    ∃ g', refine sat g = .ok g' := by
  apply refine_total_of
  obtain ⟨m, hm, hbl, -⟩ := cfgNew_ok anns g hg
  have ok := byOffset_ok anns m hm
  rintro ⟨i, n⟩ he p
  obtain ⟨a, ha, hs⟩ := (mem_edges anns g hg m hm i n).1 he
  have hga : g.blocks[i]? = some a := by rw [hbl]; exact ha
  have hsh := exitToTerms_shape a.exit (hS.wf i a ha)
  have hjts : ∀ j ∈ jtsOf anns, ∃ c, g.blocks[j]? = some c := by
    intro j hj
    obtain ⟨c, hc, -⟩ := (mem_jtsOf anns j).1 hj
    exact ⟨c, by rw [hbl]; exact hc⟩
  have hft : ∀ f j, lookup m f = some j → ∃ c, g.blocks[j]? = some c := by
    intro f j hl
    obtain ⟨c, hc, -⟩ := (ok.mem f j).1 ((lookup_eq_some_iff m ok.asc f j).1 hl)
    exact ⟨c, by rw [hbl]; exact hc⟩
  cases hx : a.exit with
  | terminate =>
    rw [hx] at hs hsh
    simp only [EdgeSpec, ExitShape] at hs hsh
    subst hs
    simp [queryOf, hga, qTerminate, hx, hsh]
  | fallThrough f =>
    rw [hx] at hs hsh
    simp only [EdgeSpec, ExitShape] at hs hsh
    subst hs
    cases hl : lookup m f with
    | none => simp [ftNode, queryOf, hga, qTerminate, hx, hsh]
    | some j =>
      obtain ⟨c, hc⟩ := hft f j hl
      simp [ftNode, queryOf, hga, hc, qBlock, hx, hsh]
  | unconditional e =>
    rw [hx] at hs hsh
    simp only [EdgeSpec, ExitShape] at hs hsh
    obtain ⟨u, hu⟩ := hsh
    rcases hs with rfl | ⟨j, hj, rfl⟩
    · simp [queryOf, hga, qBadJump, hx, hu]
    · obtain ⟨c, hc⟩ := hjts j hj
      simp [queryOf, hga, hc, qBlock, hx, hu]
  | branch ce te f =>
    rw [hx] at hs hsh
    simp only [EdgeSpec, ExitShape] at hs hsh
    obtain ⟨ct, dt, hu⟩ := hsh
    rcases hs with rfl | rfl | ⟨j, hj, rfl⟩
    · cases hl : lookup m f with
      | none => simp [ftNode, queryOf, hga, qTerminate, hx, hu]
      | some j =>
        obtain ⟨c, hc⟩ := hft f j hl
        simp [ftNode, queryOf, hga, hc, qBlock, hx, hu]
    · simp [queryOf, hga, qBadJump, hx, hu]
    · obtain ⟨c, hc⟩ := hjts j hj
      simp [queryOf, hga, hc, qBlock, hx, hu]

/-- `cfgNew` succeeds when offsets are pairwise distinct. -/
theorem cfgNew_total (t : OpTable) (bs : List Blocks.Block) (anns : List Annotated) (hS : Setup t bs anns) :
    ∃ g, cfgNew anns = .ok g := by
  obtain ⟨m, hm⟩ := byOffset_total anns hS.distinct'
  unfold cfgNew
  rw [hm]
  exact ⟨_, rfl⟩

/-- T-wf (shape): one node per block (plus the two special nodes, which are
never the source of an edge by construction of `Graph`); every edge leaves an
existing block and leads to a jump-target block, to the block at the source's
fall-through offset, or to a special node; no edge is listed twice; refinement
only removes edges. -/
theorem cfg_shape (anns : List Annotated) (g : Graph) (hg : cfgNew anns = .ok g) :
    g.blocks = anns ∧ g.edges.Nodup ∧
    ∀ e ∈ g.edges, ∃ a, anns[e.1]? = some a ∧
      (match e.2 with
       | .block j => ∃ c, anns[j]? = some c ∧
           (c.jumpTarget = true ∨ fallThroughOf a.exit = some c.offset)
       | .terminate => True
       | .badJump => (match a.exit with | .unconditional _ => True | .branch _ _ _ => True | _ => False)) := by
  obtain ⟨m, hm, hbl, -⟩ := cfgNew_ok anns g hg
  have ok := byOffset_ok anns m hm
  refine ⟨hbl, edges_nodup anns g hg, ?_⟩
  rintro ⟨i, n⟩ he
  obtain ⟨a, ha, hs⟩ := (mem_edges anns g hg m hm i n).1 he
  refine ⟨a, ha, ?_⟩
  have hjts : ∀ j ∈ jtsOf anns, ∃ c, anns[j]? = some c ∧
      (c.jumpTarget = true ∨ fallThroughOf a.exit = some c.offset) := by
    intro j hj
    obtain ⟨c, hc, hjt⟩ := (mem_jtsOf anns j).1 hj
    exact ⟨c, hc, Or.inl hjt⟩
  have hft : ∀ f j, fallThroughOf a.exit = some f → Node.block j = ftNode (lookup m f) →
      ∃ c, anns[j]? = some c ∧ (c.jumpTarget = true ∨ fallThroughOf a.exit = some c.offset) := by
    intro f j hf hl
    cases hlk : lookup m f with
    | none => rw [hlk] at hl; cases hl
    | some k =>
      rw [hlk] at hl
      injection hl with hl
      subst hl
      obtain ⟨c, hc, hco⟩ := (ok.mem f j).1 ((lookup_eq_some_iff m ok.asc f j).1 hlk)
      exact ⟨c, hc, Or.inr (by rw [hf, hco])⟩
  cases n with
  | terminate => trivial
  | badJump =>
    show match a.exit with | .unconditional _ => True | .branch _ _ _ => True | _ => False
    cases hx : a.exit with
    | terminate => rw [hx] at hs; cases hs
    | fallThrough f =>
      rw [hx] at hs
      simp only [EdgeSpec] at hs
      cases hl : lookup m f <;> rw [hl] at hs <;> cases hs
    | unconditional e => trivial
    | branch ce te f => trivial
  | block j =>
    show ∃ c, anns[j]? = some c ∧ (c.jumpTarget = true ∨ fallThroughOf a.exit = some c.offset)
    cases hx : a.exit with
    | terminate => rw [hx] at hs; cases hs
    | fallThrough f =>
      rw [hx] at hs hft
      exact hft f j rfl hs
    | unconditional e =>
      rw [hx] at hs hjts
      rcases hs with hs | ⟨k, hk, hs⟩
      · cases hs
      · injection hs with hs
        subst hs
        exact hjts j hk
    | branch ce te f =>
      rw [hx] at hs hjts hft
      rcases hs with hs | hs | ⟨k, hk, hs⟩
      · exact hft f j rfl hs
      · cases hs
      · injection hs with hs
        subst hs
        exact hjts j hk

theorem refine_subgraph (sat : List BTerm → Bool) (g g' : Graph) (hr : refine sat g = .ok g') :
    g'.blocks = g.blocks ∧ g'.edges.Sublist g.edges := by
  obtain ⟨h1, h2, -⟩ := refine_ok sat g g' hr
  exact ⟨h1, h2⟩

/-- T-wf (successors): after refinement with a sound solver every block keeps at
least one successor, and a block that ends by falling through or halting has
exactly its one mandatory successor. -/
theorem refine_successors (t : OpTable) (bs : List Blocks.Block) (anns : List Annotated) (hS : Setup t bs anns)
    (g g' : Graph) (hg : cfgNew anns = .ok g)
    (sat : List BTerm → Bool) (hsat : SoundSat sat) (hr : refine sat g = .ok g')
    (i : Nat) (a : Annotated) (ha : anns[i]? = some a) :
    (∃ n, (i, n) ∈ g'.edges) ∧
    (match a.exit with
     | .terminate => ∀ n, (i, n) ∈ g'.edges ↔ n = .terminate
     | .fallThrough f => ∀ n, (i, n) ∈ g'.edges ↔
         n = (match blockAt anns f with | some j => Node.block j | none => Node.terminate)
     | _ => True) := by
  obtain ⟨m, hm, hbl, -⟩ := cfgNew_ok anns g hg
  have ok := byOffset_ok anns m hm
  have hlk := lookup_eq_findIdx anns m ok
  obtain ⟨-, -, hmem⟩ := refine_ok sat g g' hr
  obtain ⟨et, I, het, -⟩ := exitToTerms_sound envZero (fun _ => 0) (fun _ => 0) a.exit (hS.wf i a ha)
  obtain ⟨h1, h2⟩ := kept_edge anns g hg hS.small' i a ha et het I
  have hkept : (i, target anns I et) ∈ g'.edges := (hmem _).2 ⟨h1, Kept.keepS sat hsat I _ h2⟩
  refine ⟨⟨_, hkept⟩, ?_⟩
  have hspec : ∀ n, (i, n) ∈ g'.edges → EdgeSpec m (jtsOf anns) a.exit n := by
    intro n hn
    obtain ⟨a', ha', hs⟩ := (mem_edges anns g hg m hm i n).1 ((hmem _).1 hn).1
    rw [ha] at ha'
    injection ha' with ha'
    subst ha'
    exact hs
  cases hx : a.exit with
  | terminate =>
    rw [hx] at het hspec
    simp only [exitToTerms] at het
    injection het with het
    subst het
    intro n
    constructor
    · exact hspec n
    · rintro rfl
      exact hkept
  | fallThrough f =>
    rw [hx] at het hspec
    simp only [exitToTerms] at het
    injection het with het
    subst het
    have hnode : (match blockAt anns f with | some j => Node.block j | none => Node.terminate)
        = ftNode (findIdx anns f) := by
      rw [blockAt_eq]
      cases findIdx anns f <;> rfl
    intro n
    show _ ↔ n = (match blockAt anns f with | some j => Node.block j | none => Node.terminate)
    rw [hnode]
    constructor
    · intro hn
      have := hspec n hn
      simp only [EdgeSpec, hlk] at this
      exact this
    · rintro rfl
      exact hkept
  | unconditional e => trivial
  | branch ce te f => trivial

end Cfg
end EtkVerif
