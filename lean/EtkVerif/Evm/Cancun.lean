/-
The REAL Cancun pc/stack semantics, next to the one the analysis theorems use.

`Evm/Sem.lean`'s `kindOf` follows the opcode set of etk's own Cancun table, which
lacks four opcodes that real Cancun defines:
  0x49 BLOBHASH     pop 1, push a value read from the state
  0x4a BLOBBASEFEE  push a value read from the state
  0x5c TLOAD        pop 1, push a value read from the state
  0x5d TSTORE       pop 2
etk treats these bytes as undefined (= halting) instructions and so does `kindOf`
(`.halt 0`).  `kindOfCancun` gives them their real meaning; `exec1C` / `execBlockC`
are verbatim copies of `exec1` / `execBlock` over `kindOfCancun`.  On blocks that
contain none of the four opcodes the two semantics coincide (`execBlockC_eq`);
on blocks that contain one they differ, and the analysis properties C05 / C06 fail
for the real machine (counterexamples in `Props/C05.lean`, `Props/C06.lean`).
-/
import EtkVerif.Evm.Sem
namespace EtkVerif
namespace Evm

/-- The Cancun opcodes missing from etk's Cancun table. -/
def missingOps : List Nat := [0x49, 0x4a, 0x5c, 0x5d]

/-- `kindOf` with the four missing opcodes given their real Cancun meaning. -/
def kindOfCancun (b : Nat) : Kind :=
  if b = 0x49 then .read 1
  else if b = 0x4a then .read 0
  else if b = 0x5c then .read 1
  else if b = 0x5d then .pops 2
  else kindOf b

/-- `exec1` over `kindOfCancun`. -/
def exec1C (E : Env) (ω : Nat → Word) (pc idx : Nat) (i : Disasm.Instr) (st : List Word) : Option Step :=
  match kindOfCancun i.op with
  | .fn k f => if st.length < k then none else some (.next (f E (st.take k) :: st.drop k))
  | .read k => if st.length < k then none else some (.next (ω idx :: st.drop k))
  | .pops k => if st.length < k then none else some (.next (st.drop k))
  | .pc => some (.next (BitVec.ofNat 256 pc :: st))
  | .jumpdest => some (.next st)
  | .push => some (.next (BitVec.ofNat 256 (i.imm.foldl (fun acc b => acc * 256 + b) 0) :: st))
  | .dup n => match st[n - 1]? with
    | some x => some (.next (x :: st))
    | none => none
  | .swap n => match st, st[n]? with
    | top :: rest, some deep => some (.next (deep :: rest.set (n - 1) top))
    | _, _ => none
  | .jump => match st with
    | d :: rest => some (.jump d rest)
    | _ => none
  | .jumpi => match st with
    | d :: c :: rest => some (.jumpi d c rest)
    | _ => none
  | .halt k => if st.length < k then none else some .halt

/-- `execBlock` over `exec1C`: the real Cancun machine on the instructions of a block. -/
def execBlockC (E : Env) (ω : Nat → Word) : List Disasm.Instr → Nat → Nat → List Word → Option Outcome
  | [], pc, _, st => some (.fall pc st)
  | i :: rest, pc, idx, st =>
    match exec1C E ω pc idx i st with
    | none => none
    | some (.next st') => execBlockC E ω rest (pc + i.len) (idx + 1) st'
    | some .halt => some .halt
    | some (.jump d st') => some (.jump d st')
    | some (.jumpi d c st') => some (.jumpi d c (pc + 1) st')

theorem kindOfCancun_eq (b : Nat) (h : b ∉ missingOps) : kindOfCancun b = kindOf b := by
  simp only [missingOps, List.mem_cons, List.not_mem_nil, or_false, not_or] at h
  obtain ⟨h1, h2, h3, h4⟩ := h
  simp only [kindOfCancun, if_neg h1, if_neg h2, if_neg h3, if_neg h4]

/-- On the four missing opcodes the two semantics do differ. -/
theorem kindOfCancun_missing (b : Nat) (h : b ∈ missingOps) : kindOf b = .halt 0 ∧ kindOfCancun b ≠ .halt 0 := by
  simp only [missingOps, List.mem_cons, List.not_mem_nil, or_false] at h
  rcases h with h | h | h | h <;> subst h <;> refine ⟨rfl, ?_⟩ <;> simp [kindOfCancun]

theorem exec1C_eq (E : Env) (ω : Nat → Word) (pc idx : Nat) (i : Disasm.Instr) (st : List Word)
    (h : i.op ∉ missingOps) : exec1C E ω pc idx i st = exec1 E ω pc idx i st := by
  unfold exec1C exec1
  rw [kindOfCancun_eq _ h]
  cases kindOf i.op <;> rfl

/-- Bridge: on instruction lists without the four missing opcodes the real Cancun
semantics is the semantics of the analysis theorems. -/
theorem execBlockC_eq (E : Env) (ω : Nat → Word) (ops : List Disasm.Instr) (pc idx : Nat) (st : List Word)
    (h : ∀ i ∈ ops, i.op ∉ missingOps) :
    execBlockC E ω ops pc idx st = execBlock E ω ops pc idx st := by
  induction ops generalizing pc idx st with
  | nil => rfl
  | cons i rest ih =>
    unfold execBlockC execBlock
    rw [exec1C_eq E ω pc idx i st (h i (List.mem_cons_self))]
    cases hx : exec1 E ω pc idx i st with
    | none => rfl
    | some s =>
      cases s with
      | next st' => exact ih _ _ _ (fun j hj => h j (List.mem_cons_of_mem _ hj))
      | halt => rfl
      | jump d st' => rfl
      | jumpi d c st' => rfl

end Evm
end EtkVerif
