/-
EVM word operations, written from the Yellow Paper (appendix H) over unbounded
`Nat` / `Int` arithmetic and reduced modulo 2^256 only where the specification
says so — so that an implementation that wraps early is visibly different.
-/
namespace EtkVerif
abbrev Word := BitVec 256

namespace Evm

def ofBool (b : Bool) : Word := if b then 1 else 0

def add (a b : Word) : Word := BitVec.ofNat 256 (a.toNat + b.toNat)
def mul (a b : Word) : Word := BitVec.ofNat 256 (a.toNat * b.toNat)
def sub (a b : Word) : Word := BitVec.ofInt 256 ((a.toNat : Int) - (b.toNat : Int))
def div (a b : Word) : Word := if b.toNat = 0 then 0 else BitVec.ofNat 256 (a.toNat / b.toNat)
def mod (a b : Word) : Word := if b.toNat = 0 then 0 else BitVec.ofNat 256 (a.toNat % b.toNat)
/-- signed division truncating toward zero; −2^255 / −1 wraps to −2^255 -/
def sdiv (a b : Word) : Word := if b.toNat = 0 then 0 else BitVec.ofInt 256 (Int.tdiv a.toInt b.toInt)
/-- signed remainder, sign of the dividend -/
def smod (a b : Word) : Word := if b.toNat = 0 then 0 else BitVec.ofInt 256 (Int.tmod a.toInt b.toInt)
/-- (a + b) mod n over unbounded integers: the intermediate sum is not reduced mod 2^256 -/
def addmod (a b n : Word) : Word := if n.toNat = 0 then 0 else BitVec.ofNat 256 ((a.toNat + b.toNat) % n.toNat)
def mulmod (a b n : Word) : Word := if n.toNat = 0 then 0 else BitVec.ofNat 256 ((a.toNat * b.toNat) % n.toNat)
def exp (a b : Word) : Word := BitVec.ofNat 256 (a.toNat ^ b.toNat)
/-- SIGNEXTEND(b, x): x's low (b+1) bytes read as a signed integer; x itself for b ≥ 31 -/
def signextend (b x : Word) : Word :=
  if 31 ≤ b.toNat then x else BitVec.ofInt 256 (Int.bmod (x.toNat : Int) (2 ^ (8 * (b.toNat + 1))))
def lt (a b : Word) : Word := ofBool (decide (a.toNat < b.toNat))
def gt (a b : Word) : Word := ofBool (decide (a.toNat > b.toNat))
def slt (a b : Word) : Word := ofBool (decide (a.toInt < b.toInt))
def sgt (a b : Word) : Word := ofBool (decide (a.toInt > b.toInt))
def eq (a b : Word) : Word := ofBool (decide (a = b))
def iszero (a : Word) : Word := ofBool (decide (a.toNat = 0))
def and (a b : Word) : Word := a &&& b
def or (a b : Word) : Word := a ||| b
def xor (a b : Word) : Word := a ^^^ b
def not (a : Word) : Word := ~~~a
/-- BYTE(i, x): the i-th byte of x counting from the most significant; 0 for i ≥ 32 -/
def byte (i x : Word) : Word := if 32 ≤ i.toNat then 0 else BitVec.ofNat 256 (x.toNat / 256 ^ (31 - i.toNat) % 256)
/-- SHL(shift, value) -/
def shl (s x : Word) : Word := if 256 ≤ s.toNat then 0 else BitVec.ofNat 256 (x.toNat * 2 ^ s.toNat)
def shr (s x : Word) : Word := if 256 ≤ s.toNat then 0 else BitVec.ofNat 256 (x.toNat / 2 ^ s.toNat)
/-- SAR(shift, value): arithmetic (floor) shift of the signed value -/
def sar (s x : Word) : Word :=
  if 256 ≤ s.toNat then (if x.toInt < 0 then BitVec.allOnes 256 else 0)
  else BitVec.ofInt 256 (x.toInt / 2 ^ s.toNat)

/-- Transaction-constant environment: the reads whose value cannot change during
one execution. -/
structure Env where
  address : Word
  origin : Word
  caller : Word
  callvalue : Word
  calldatasize : Word
  codesize : Word
  gasprice : Word
  coinbase : Word
  timestamp : Word
  number : Word
  difficulty : Word
  gaslimit : Word
  chainid : Word
  basefee : Word
  calldataload : Word → Word
  blockhash : Word → Word

end Evm
end EtkVerif
