/-
The part of EVM semantics the properties talk about — program counter and
stack — written from the Yellow Paper, independently of the annotator model.
Memory, storage, logs and gas are not modelled: the instructions that touch
them only pop, and every state-dependent read takes its result from the oracle
`ω` (indexed by the position of the reading instruction).  Stack underflow is
`none`: such executions are outside the relation (C05/C06 exclude them).
-/
import EtkVerif.Evm.Ops
import EtkVerif.Disasm.Model
namespace EtkVerif
namespace Evm

/-- What one instruction does to pc and stack. -/
inductive Kind
  | fn (k : Nat) (f : Env → List Word → Word)   -- pop k (μ[0] first), push f
  | read (k : Nat)                              -- pop k, push the value the machine state gave
  | pops (k : Nat)                              -- pop k
  | pc | jumpdest | push | dup (n : Nat) | swap (n : Nat)
  | jump | jumpi
  | halt (k : Nat)                              -- needs k operands, then halts

def fn2 (f : Word → Word → Word) : Kind := .fn 2 (fun _ a => match a with | [x, y] => f x y | _ => 0)
def fn1 (f : Word → Word) : Kind := .fn 1 (fun _ a => match a with | [x] => f x | _ => 0)
def fn3 (f : Word → Word → Word → Word) : Kind := .fn 3 (fun _ a => match a with | [x, y, z] => f x y z | _ => 0)
def env0 (f : Env → Word) : Kind := .fn 0 (fun E _ => f E)
def env1 (f : Env → Word → Word) : Kind := .fn 1 (fun E a => match a with | [x] => f E x | _ => 0)

/-- Yellow Paper appendix H, by opcode byte, with the opcode set of etk's Cancun
table (bytes it does not define are invalid instructions: they halt). -/
def kindOf (b : Nat) : Kind :=
  if b = 0x00 then .halt 0
  else if b = 0x01 then fn2 add else if b = 0x02 then fn2 mul else if b = 0x03 then fn2 sub
  else if b = 0x04 then fn2 div else if b = 0x05 then fn2 sdiv else if b = 0x06 then fn2 mod
  else if b = 0x07 then fn2 smod else if b = 0x08 then fn3 addmod else if b = 0x09 then fn3 mulmod
  else if b = 0x0a then fn2 exp else if b = 0x0b then fn2 signextend
  else if b = 0x10 then fn2 lt else if b = 0x11 then fn2 gt else if b = 0x12 then fn2 slt
  else if b = 0x13 then fn2 sgt else if b = 0x14 then fn2 eq else if b = 0x15 then fn1 iszero
  else if b = 0x16 then fn2 and else if b = 0x17 then fn2 or else if b = 0x18 then fn2 xor
  else if b = 0x19 then fn1 not else if b = 0x1a then fn2 byte else if b = 0x1b then fn2 shl
  else if b = 0x1c then fn2 shr else if b = 0x1d then fn2 sar
  else if b = 0x20 then .read 2
  else if b = 0x30 then env0 (·.address) else if b = 0x31 then .read 1
  else if b = 0x32 then env0 (·.origin) else if b = 0x33 then env0 (·.caller)
  else if b = 0x34 then env0 (·.callvalue) else if b = 0x35 then env1 (·.calldataload)
  else if b = 0x36 then env0 (·.calldatasize) else if b = 0x37 then .pops 3
  else if b = 0x38 then env0 (·.codesize) else if b = 0x39 then .pops 3
  else if b = 0x3a then env0 (·.gasprice) else if b = 0x3b then .read 1
  else if b = 0x3c then .pops 4 else if b = 0x3d then .read 0
  else if b = 0x3e then .pops 3 else if b = 0x3f then .read 1
  else if b = 0x40 then env1 (·.blockhash) else if b = 0x41 then env0 (·.coinbase)
  else if b = 0x42 then env0 (·.timestamp) else if b = 0x43 then env0 (·.number)
  else if b = 0x44 then env0 (·.difficulty) else if b = 0x45 then env0 (·.gaslimit)
  else if b = 0x46 then env0 (·.chainid) else if b = 0x47 then .read 0
  else if b = 0x48 then env0 (·.basefee)
  else if b = 0x50 then .pops 1 else if b = 0x51 then .read 1 else if b = 0x52 then .pops 2
  else if b = 0x53 then .pops 2 else if b = 0x54 then .read 1 else if b = 0x55 then .pops 2
  else if b = 0x56 then .jump else if b = 0x57 then .jumpi else if b = 0x58 then .pc
  else if b = 0x59 then .read 0 else if b = 0x5a then .read 0 else if b = 0x5b then .jumpdest
  else if b = 0x5e then .pops 3
  else if 0x5f ≤ b ∧ b ≤ 0x7f then .push
  else if 0x80 ≤ b ∧ b ≤ 0x8f then .dup (b - 0x7f)
  else if 0x90 ≤ b ∧ b ≤ 0x9f then .swap (b - 0x8f)
  else if 0xa0 ≤ b ∧ b ≤ 0xa4 then .pops (b - 0xa0 + 2)
  else if b = 0xf0 then .read 3 else if b = 0xf1 then .read 7 else if b = 0xf2 then .read 7
  else if b = 0xf3 then .halt 2 else if b = 0xf4 then .read 6 else if b = 0xf5 then .read 4
  else if b = 0xfa then .read 6 else if b = 0xfd then .halt 2 else if b = 0xff then .halt 1
  else .halt 0

inductive Step
  | next (st : List Word)
  | halt
  | jump (dest : Word) (st : List Word)
  | jumpi (dest cond : Word) (st : List Word)

/-- One instruction at program counter `pc`, being the `idx`-th instruction of
its block, on stack `st` (top first).  `none` = stack underflow. -/
def exec1 (E : Env) (ω : Nat → Word) (pc idx : Nat) (i : Disasm.Instr) (st : List Word) : Option Step :=
  match kindOf i.op with
  | .fn k f => if st.length < k then none else some (.next (f E (st.take k) :: st.drop k))
  | .read k => if st.length < k then none else some (.next (ω idx :: st.drop k))
  | .pops k => if st.length < k then none else some (.next (st.drop k))
  | .pc => some (.next (BitVec.ofNat 256 pc :: st))
  | .jumpdest => some (.next st)
  | .push => some (.next (BitVec.ofNat 256 (i.imm.foldl (fun acc b => acc * 256 + b) 0) :: st))
  | .dup n => match st[n - 1]? with
    | some x => some (.next (x :: st))
    | none => none
  | .swap n => match st, st[n]? with
    | top :: rest, some deep => some (.next (deep :: rest.set (n - 1) top))
    | _, _ => none
  | .jump => match st with
    | d :: rest => some (.jump d rest)
    | _ => none
  | .jumpi => match st with
    | d :: c :: rest => some (.jumpi d c rest)
    | _ => none
  | .halt k => if st.length < k then none else some .halt

/-- How control leaves a block. -/
inductive Outcome
  | fall (pc : Nat) (st : List Word)                    -- ran past the last instruction
  | halt
  | jump (dest : Word) (st : List Word)
  | jumpi (dest cond : Word) (fallPc : Nat) (st : List Word)

/-- Run the instructions of a block one by one. -/
def execBlock (E : Env) (ω : Nat → Word) : List Disasm.Instr → Nat → Nat → List Word → Option Outcome
  | [], pc, _, st => some (.fall pc st)
  | i :: rest, pc, idx, st =>
    match exec1 E ω pc idx i st with
    | none => none
    | some (.next st') => execBlock E ω rest (pc + i.len) (idx + 1) st'
    | some .halt => some .halt
    | some (.jump d st') => some (.jump d st')
    | some (.jumpi d c st') => some (.jumpi d c (pc + 1) st')

end Evm
end EtkVerif
