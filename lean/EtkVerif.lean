-- This module serves as the root of the `EtkVerif` library.
-- Import modules here that should be built as part of the library.
import EtkVerif.Basic
