-- Root of the `EtkVerif` library: every property file.
import EtkVerif.Props.C17
import EtkVerif.Props.C04
import EtkVerif.Props.C16
