#!/usr/bin/env python3
"""coverage.py [quick|thorough] [Cxx ...]   (development aid, not a registered check)

How much of /repo's code do the correspondence streams reach?  Builds the harnesses with `-C instrument-coverage`
(nightly toolchain; target directories under /tmp, removed by the caller), feeds the implementation-side request lines
of the named checks (default: all) to the instrumented binaries and prints llvm-cov's per-file line coverage.  Lines no
stream reaches are where a seeded change can hide: the generator additions of DESIGN §12 ("coverage-guided") came from
this report.  Set COV_ANA=1 for the analyze harness (rebuilds z3: ~15 min)."""
import importlib, json, os, subprocess, sys, glob
HERE = os.path.dirname(os.path.abspath(__file__))
sys.path.insert(0, HERE)
import common as C
ANA = os.environ.get("COV_ANA") == "1"
TGT = "/tmp/covtarget-ana" if ANA else "/tmp/covtarget"
EXE = TGT + ("/debug/etk-ha" if ANA else "/debug/etk-h")
PROF = "/tmp/cov/prof-ana" if ANA else "/tmp/cov/prof"
BIN = os.path.expanduser("~/.rustup/toolchains/nightly-x86_64-unknown-linux-gnu/lib/rustlib/x86_64-unknown-linux-gnu/bin")
args = sys.argv[1:]
tier = args[0] if args and args[0] in ("quick", "thorough") else "quick"
pids = [a for a in args if a.upper().startswith("C") and a[1:].isdigit()] or [f"C{i:02d}" for i in range(1, 21)]
os.makedirs(PROF, exist_ok=True)
# build scripts run instrumented too and would drop their profiles into the crate directories of /repo: send them to /tmp
env = dict(os.environ, RUSTFLAGS="-Cinstrument-coverage", CARGO_TARGET_DIR=TGT, CARGO_NET_OFFLINE="true", LLVM_PROFILE_FILE="/tmp/cov/build-%p.profraw")
subprocess.run(["cargo", "+nightly", "build", "--offline", "--features", "hooks"], cwd=os.path.join(C.VERIF, "harness", "analyze" if ANA else "core"), env=env, check=True)
step = 40 if ANA else 200
for pid in pids:
    P = importlib.import_module("props." + pid.lower())
    rng = C.Rng(1 * 1000003 + sum(map(ord, pid)))
    cases = []
    cd = os.path.join(C.VERIF, "corpus", pid)
    if os.path.isdir(cd):
        cases += [dict(json.load(open(os.path.join(cd, f)))["case"]) for f in sorted(os.listdir(cd)) if f.endswith(".json")]
    cases += P.cases(rng, tier)
    if hasattr(P, "prepare"):
        P.prepare(cases)
    groups = {}
    for c in cases:
        if (c.get("exe") == "analyze") == ANA:
            groups.setdefault(c.get("cwd"), []).append(c["line"])
    n = 0
    for cwd, lines in groups.items():
        for k in range(0, len(lines), step):       # small batches: a crash loses only that batch's profile
            try:
                subprocess.run([EXE], input="\n".join(lines[k:k + step]) + "\n", capture_output=True, text=True, timeout=600, cwd=cwd,
                               env=dict(os.environ, LLVM_PROFILE_FILE=f"{PROF}/{pid}-%p.profraw"))
            except subprocess.TimeoutExpired:
                pass
            n += len(lines[k:k + step])
    print(pid, "lines fed:", n, flush=True)
subprocess.run([BIN + "/llvm-profdata", "merge", "-sparse"] + glob.glob(PROF + "/*.profraw") + ["-o", PROF + ".profdata"], check=True)
subprocess.run([BIN + "/llvm-cov", "report", EXE, "-instr-profile=" + PROF + ".profdata",
                "--ignore-filename-regex=(\\.cargo|rustc|/verif/harness|covtarget)"])
print(f"uncovered lines of a file: {BIN}/llvm-cov show {EXE} -instr-profile={PROF}.profdata /repo/<file> | awk -F'|' '$2 ~ /^ *0$/'")
