"""Independent reference semantics of the assembler (the *specification* side of
the search oracles of C01/C02/C07-C14), working on a Python AST of the program —
never on the implementation's parse.  Also renders the AST to source text in
random legal layouts.

Statements:
  ('op', mnemonic)                    ('push', n, expr)        ('apush', expr)      ('label', name)
  ('mdef', name, [params], [stmts])   ('edef', name, [params], expr)                ('minv', name, [exprs])
  ('raw', bytes)                      -- pre-assembled bytes (include_hex / include)
Expressions:
  ('num', value, spelling) ('lbl', name) ('var', name) ('bin', op, a, b) ('par', e) ('call', name, [exprs])
  ('sel', sig) ('topic', sig)
"""
import hashlib

MAX_DEPTH = 255


class X:
    """an operand expression: the generated token text and its AST by the reference parser"""
    def __init__(self, tokens, spaced=None):
        self.tokens = tokens
        self.txt = spaced if spaced is not None else "".join(tokens)
        self.ast = ref_parse(tokens)


def lit_value(tok):
    if tok.startswith("0x"): return int(tok[2:], 16)
    if tok.startswith("0b"): return int(tok[2:], 2)
    if tok.startswith("0o"): return int(tok[2:], 8)
    return int(tok, 10)


def ref_parse(tokens):
    """stratified grammar  E -> T ((+|-) T)*,  T -> F ((*|/) F)*,  F -> literal | name | $var | name(args) | (E)
    — the reference the precedence climber is compared with"""
    pos = [0]

    def peek():
        return tokens[pos[0]] if pos[0] < len(tokens) else None

    def eat():
        pos[0] += 1
        return tokens[pos[0] - 1]

    def F():
        t = eat()
        if t == "(":
            e = E()
            assert eat() == ")"
            return ("par", e)
        if t.startswith("$"): return ("var", t[1:])
        if t.startswith("selector(") or t.startswith("topic("):
            sig = t[t.index('"') + 1:t.rindex('"')]
            return ("sel" if t.startswith("selector") else "topic", sig)
        if t[0].isdigit() or (t[0] == "-" and len(t) > 1): return ("num", lit_value(t))
        if peek() == "(":          # expression macro invocation
            eat()
            args = []
            if peek() == ")":
                eat()
                return ("call", t, args)
            while True:
                args.append(E())
                sep = eat()
                if sep == ")":
                    return ("call", t, args)
                assert sep == ","
        return ("lbl", t)

    def T():
        a = F()
        while peek() in ("*", "/"):
            op = eat(); b = F(); a = ("bin", op, a, b)
        return a

    def E():
        a = T()
        while peek() in ("+", "-"):
            op = eat(); b = T(); a = ("bin", op, a, b)
        return a

    e = E()
    assert pos[0] == len(tokens), (tokens, pos[0])
    return e


def strip(stmts):
    """replace X wrappers by their ASTs"""
    out = []
    for s in stmts:
        k = s[0]
        if k == "push": out.append(("push", s[1], s[2].ast))
        elif k == "apush": out.append(("apush", s[1].ast))
        elif k == "minv": out.append(("minv", s[1], [a.ast for a in s[2]]))
        elif k == "edef": out.append(("edef", s[1], s[2], s[3].ast))
        elif k == "mdef": out.append(("mdef", s[1], s[2], strip(s[3])))
        else: out.append(s)
    return out


class Fault(Exception):
    def __init__(self, kind, name=None):
        self.kind, self.name = kind, name

    def key(self):
        return (self.kind, self.name)


# ------------------------------------------------------------------ keccak (hashlib has sha3, not keccak)

def _keccak256(data: bytes) -> bytes:
    RC = [0x0000000000000001, 0x0000000000008082, 0x800000000000808A, 0x8000000080008000, 0x000000000000808B,
          0x0000000080000001, 0x8000000080008081, 0x8000000000008009, 0x000000000000008A, 0x0000000000000088,
          0x0000000080008009, 0x000000008000000A, 0x000000008000808B, 0x800000000000008B, 0x8000000000008089,
          0x8000000000008003, 0x8000000000008002, 0x8000000000000080, 0x000000000000800A, 0x800000008000000A,
          0x8000000080008081, 0x8000000000008080, 0x0000000080000001, 0x8000000080008008]
    ROT = [[0, 36, 3, 41, 18], [1, 44, 10, 45, 2], [62, 6, 43, 15, 61], [28, 55, 25, 21, 56], [27, 20, 39, 8, 14]]
    M = (1 << 64) - 1
    rol = lambda x, n: ((x << n) | (x >> (64 - n))) & M if n else x
    st = [[0] * 5 for _ in range(5)]
    rate = 136
    p = bytearray(data)
    q = rate - len(p) % rate
    p += (b"\x81" if q == 1 else b"\x01" + b"\x00" * (q - 2) + b"\x80")
    for off in range(0, len(p), rate):
        blk = p[off:off + rate]
        for i in range(rate // 8):
            st[i % 5][i // 5] ^= int.from_bytes(blk[8 * i:8 * i + 8], "little")
        for rc in RC:
            C = [st[x][0] ^ st[x][1] ^ st[x][2] ^ st[x][3] ^ st[x][4] for x in range(5)]
            D = [C[(x - 1) % 5] ^ rol(C[(x + 1) % 5], 1) for x in range(5)]
            st = [[st[x][y] ^ D[x] for y in range(5)] for x in range(5)]
            B = [[0] * 5 for _ in range(5)]
            for x in range(5):
                for y in range(5):
                    B[y][(2 * x + 3 * y) % 5] = rol(st[x][y], ROT[x][y])
            st = [[B[x][y] ^ ((~B[(x + 1) % 5][y]) & B[(x + 2) % 5][y]) for y in range(5)] for x in range(5)]
            st[0][0] ^= rc
    out = b""
    for i in range(4):
        out += st[i % 5][i // 5].to_bytes(8, "little")
    return out


assert _keccak256(b"").hex() == "c5d2460186f7233c927e7db2dcc703c0e500b653ca82273b7bfad8045d85a470"

# ------------------------------------------------------------------ opcodes

MNEMONICS = {}


def load_mnemonics(table_rows):
    """table_rows: iterable of (code, mnemonic) for the cancun fork, from `etk-h dump-ops`"""
    for code, m in table_rows:
        if not m.startswith("invalid_") and not (0x60 <= code <= 0x7f):
            MNEMONICS[m] = code


# ------------------------------------------------------------------ evaluation

def tdiv(a, b):
    q = abs(a) // abs(b)
    return q if (a < 0) == (b < 0) else -q


def eval_expr(e, labels, emacros, vars_, depth=0):
    """labels: name -> offset (defined labels only); emacros: name -> (params, body); vars_: name -> int or None"""
    k = e[0]
    if k == "num": return e[1]
    if k == "par": return eval_expr(e[1], labels, emacros, vars_, depth)
    if k == "lbl":
        if e[1] not in labels:
            raise Fault("UndeclaredLabels", e[1])
        return labels[e[1]]
    if k == "var":
        if vars_ is None or e[1] not in vars_:
            raise Fault("UndeclaredVariableMacro", e[1])
        return vars_[e[1]]
    if k == "bin":
        a = eval_expr(e[2], labels, emacros, vars_, depth)
        b = eval_expr(e[3], labels, emacros, vars_, depth)
        if e[1] == "+": return a + b
        if e[1] == "-": return a - b
        if e[1] == "*": return a * b
        if b == 0:
            raise Fault("Asm.DivisionByZero")
        return tdiv(a, b)
    if k == "sel": return int.from_bytes(_keccak256(e[1].encode())[:4], "big")
    if k == "topic": return int.from_bytes(_keccak256(e[1].encode()), "big")
    if k == "call":
        if e[1] not in emacros:
            raise Fault("UndeclaredExpressionMacro", e[1])
        params, body = emacros[e[1]]
        vals = {}
        for p, a in zip(params, e[2]):          # at least as many arguments as parameters; extra ones are ignored
            vals[p] = eval_expr(a, labels, emacros, vars_, depth)
        if len(e[2]) < len(params):
            # C13: "every macro invocation supplies its parameters (… at least as many for expression macros)": too few
            # arguments are a fault whether or not the missing parameter is read (D28, repaired by 841db2a)
            raise Fault("UndeclaredVariableMacro", params[len(e[2])])
        if depth >= MAX_DEPTH:
            raise Fault("Asm.MacroRecursionLimit", e[1])
        return eval_expr(body, labels, emacros, vals, depth + 1)
    raise AssertionError(k)


def labels_in(e, emacros, depth=0, seen=None):
    k = e[0]
    if k == "lbl": return [e[1]]
    if k == "par": return labels_in(e[1], emacros, depth)
    if k == "bin": return labels_in(e[2], emacros, depth) + labels_in(e[3], emacros, depth)
    if k == "call":
        out = []
        if e[1] in emacros and depth < MAX_DEPTH:
            out += labels_in(emacros[e[1]][1], emacros, depth + 1)
        for a in e[2]:
            out += labels_in(a, emacros, depth)
        return out
    return []


def subst(e, rename, bind):
    """rename local labels, then substitute parameters simultaneously (arguments are not re-examined)"""
    k = e[0]
    if k == "lbl": return ("lbl", rename.get(e[1], e[1]))
    if k == "var": return bind[e[1]] if e[1] in bind else e
    if k == "par": return ("par", subst(e[1], rename, bind))
    if k == "bin": return ("bin", e[1], subst(e[2], rename, bind), subst(e[3], rename, bind))
    if k == "call": return ("call", e[1], [subst(a, rename, bind) for a in e[2]])
    return e


# ------------------------------------------------------------------ reference assembler

class Faults(Exception):
    def __init__(self, keys):
        self.keys = sorted(set(keys), key=lambda k: (k[0], k[1] or ""))


def expand(stmts, imacros, counter, depth, out, faults):
    for s in stmts:
        k = s[0]
        if k in ("mdef", "edef"):
            continue
        if k == "minv":
            if s[1] not in imacros:
                faults.append(("UndeclaredInstructionMacro", s[1])); continue
            params, body = imacros[s[1]]
            if len(params) != len(s[2]):
                faults.append(("Asm.MacroArgumentCount", s[1])); continue
            if depth >= MAX_DEPTH:
                faults.append(("Asm.MacroRecursionLimit", s[1])); continue
            rename, dup = {}, False
            for b in body:
                if b[0] == "label":
                    if b[1] in rename:
                        faults.append(("DuplicateLabel", b[1])); dup = True
                    counter[0] += 1
                    rename[b[1]] = f"{s[1]}\x00{b[1]}\x00{counter[0]}"
            if dup:
                continue
            bind = {}
            for p, a in zip(params, s[2]):
                bind[p] = a
            new = []
            for b in body:
                if b[0] == "label": new.append(("label", rename[b[1]], b[1]))
                elif b[0] == "push": new.append(("push", b[1], subst(b[2], rename, bind)))
                elif b[0] == "apush": new.append(("apush", subst(b[1], rename, bind)))
                elif b[0] == "minv": new.append(("minv", b[1], [subst(a, rename, bind) for a in b[2]]))
                else: new.append(b)
            expand(new, imacros, counter, depth + 1, out, faults)
        else:
            out.append(s)


def needed(v):
    return max(1, (abs(v).bit_length() + 7) // 8)


def assemble(stmts):
    """returns (bytes, info); raises Faults(all faults found) for an ill-formed program"""
    stmts = strip(stmts)
    faults = []
    imacros, emacros = {}, {}
    for s in stmts:
        if s[0] in ("mdef", "edef"):
            if s[1] in imacros or s[1] in emacros:
                faults.append(("DuplicateMacro", s[1])); continue
            if s[0] == "mdef": imacros[s[1]] = (s[2], s[3])
            else: emacros[s[1]] = (s[2], s[3])
    items = []
    import sys
    old = sys.getrecursionlimit(); sys.setrecursionlimit(10000)
    try:
        expand(stmts, imacros, [0], 0, items, faults)
        defined = []
        for it in items:
            if it[0] == "label":
                if it[1] in defined:
                    faults.append(("DuplicateLabel", it[2] if len(it) > 2 else it[1]))
                defined.append(it[1])
        bad = set()
        for i, it in enumerate(items):
            e = it[2] if it[0] == "push" else it[1] if it[0] == "apush" else None
            if e is None:
                continue
            try:
                check_names(e, emacros, set(defined))
            except Fault as f:
                faults.append(f.key()); bad.add(i)
        autos = [i for i, it in enumerate(items) if it[0] == "apush"]
        widths = {i: 1 for i in autos}
        labels = {}
        for _ in range(32 * len(autos) + 2):
            labels, pos = {}, 0
            for i, it in enumerate(items):
                if it[0] == "label": labels.setdefault(it[1], pos)
                elif it[0] == "op": pos += 1
                elif it[0] == "push": pos += 1 + it[1]
                elif it[0] == "apush": pos += 1 + widths[i]
                elif it[0] == "raw": pos += len(it[1])
            changed = False
            for i in autos:
                if i in bad:
                    continue
                try:
                    v = eval_expr(items[i][1], labels, emacros, None)
                except Fault:
                    continue
                n = min(32, needed(v))
                if n > widths[i]:
                    widths[i] = n; changed = True
            if not changed:
                break
        out = bytearray()
        for i, it in enumerate(items):
            if it[0] == "op": out.append(MNEMONICS[it[1]])
            elif it[0] == "raw": out += it[1]
            elif it[0] in ("push", "apush") and i not in bad:
                n = it[1] if it[0] == "push" else widths[i]
                try:
                    v = eval_expr(it[2] if it[0] == "push" else it[1], labels, emacros, None)
                except Fault as f:
                    faults.append(f.key()); continue
                if v < 0:
                    faults.append(("ExpressionNegative", None)); continue
                if v >= 256 ** n:
                    faults.append(("ExpressionTooLarge", None)); continue
                out.append(0x5f + n); out += v.to_bytes(n, "big")
    finally:
        sys.setrecursionlimit(old)
    if faults:
        raise Faults(faults)
    return bytes(out), {"labels": labels, "widths": [widths[i] for i in autos], "items": items}


def check_names(e, emacros, defined, vars_=None, depth=0):
    k = e[0]
    if k == "lbl" and e[1] not in defined:
        raise Fault("UndeclaredLabels", e[1])
    if k == "var" and (vars_ is None or e[1] not in vars_):
        raise Fault("UndeclaredVariableMacro", e[1])
    if k == "par": check_names(e[1], emacros, defined, vars_, depth)
    if k == "bin":
        check_names(e[2], emacros, defined, vars_, depth); check_names(e[3], emacros, defined, vars_, depth)
    if k == "call":
        if e[1] not in emacros:
            raise Fault("UndeclaredExpressionMacro", e[1])
        for a in e[2]:
            check_names(a, emacros, defined, vars_, depth)
        if depth >= MAX_DEPTH:
            raise Fault("Asm.MacroRecursionLimit", e[1])
        if len(e[2]) < len(emacros[e[1]][0]):
            raise Fault("UndeclaredVariableMacro", emacros[e[1]][0][len(e[2])])
        check_names(emacros[e[1]][1], emacros, defined, set(emacros[e[1]][0][:len(e[2])]), depth + 1)


# ------------------------------------------------------------------ rendering

def render_expr(x, rng=None):
    return x.txt


def render_stmt(s, rng):
    k = s[0]
    if k == "op": return s[1]
    if k == "push": return f"push{s[1]} " + render_expr(s[2], rng)
    if k == "apush": return "%push(" + render_expr(s[1], rng) + ")"
    if k == "label": return s[1] + ":"
    if k == "raw": return f'%include_hex("blob_{len(s[1])}_{s[1][:2].hex()}.hex")'

    if k == "minv": return "%" + s[1] + "(" + ", ".join(render_expr(a, rng) for a in s[2]) + ")"
    if k == "edef": return f"%def {s[1]}({', '.join(s[2])})\n{render_expr(s[3], rng)}\n%end"
    if k == "mdef":
        body = "".join("    " + render_stmt(b, rng) + "\n" for b in s[3])
        return f"%macro {s[1]}({', '.join(s[2])})\n{body}%end"
    raise AssertionError(k)


COMMENT_BITS = ["c", "", " push1 0x00", " remember the counter; gas", ";", "; stop", ";pc;pc", " a: ; jumpdest", " %push(1); pc",
                " \"quoted\" ; %include(\"x\")", " # nested # ; gas", " 0x", " ; push2 0xffff ;", "\t;\tjumpdest"]


def comment(rng):
    """a comment up to (not including) the end of the line: any characters, among them `;`, `%`, `:`, quotes and
    whole statements -- none of which may contribute a byte or end the comment early"""
    return "#" + rng.choice(COMMENT_BITS)


def render(stmts, rng=None):
    """source text; with rng: random legal layout (blank lines, comments, `;` separators, blanks)"""
    out = []
    for s in stmts:
        line = render_stmt(s, rng)
        if rng:
            r = rng.random()
            if r < 0.15: line = rng.choice([" ", "\t", "  "]) + line
            if r > 0.8 and "\n" not in line: line += rng.choice([" ", "  " + comment(rng), " " + comment(rng), "\t" + comment(rng)])
        out.append(line)
    if not rng:
        return "\n".join(out) + "\n"
    text = ""
    for i, line in enumerate(out):
        text += line
        single = "\n" not in line and not line.rstrip().endswith(":") and "%" not in line and "#" not in line
        nxt_single = i + 1 < len(out) and "\n" not in out[i + 1] and not out[i + 1].rstrip().endswith(":") and "%" not in out[i + 1] and "#" not in line
        r = rng.random()
        if single and nxt_single and r < 0.1 and "#" not in line:
            text += rng.choice([";", "; ", " ;"])
        else:
            text += "\n" * rng.choice([1, 1, 1, 2, 3]) if i + 1 < len(out) or rng.random() < 0.7 else ""
            if rng.random() < 0.08:
                text += rng.choice([comment(rng) + "\n", "   \n", "#\n", "  " + comment(rng) + "\n"])
    if rng.random() < 0.2:
        text = rng.choice(["\n", "\n\n", "# head\n", comment(rng) + "\n"]) + text
    return text
