#!/usr/bin/env python3
"""seed_recheck.py <seed-id> <property> [<property>...]
Applies the stored seeded change to /repo, runs the named quick checks, undoes it, and RECORDS what each check printed
in seeded/<seed-id>/meta.json (`rechecks`), so that the claims of DESIGN section 12 are backed by recorded runs."""
import json, os, re, subprocess, sys, time

seed, props = sys.argv[1], sys.argv[2:]
dst = f"/verif/seeded/{seed}"
meta = json.load(open(f"{dst}/meta.json"))
assert subprocess.run("git -C /repo status --porcelain", shell=True, capture_output=True, text=True).stdout.strip() == "", "/repo is not clean"
subprocess.run(f"git -C /repo apply {dst}/patch.diff", shell=True, check=True)
res = {}
try:
    for p in props:
        t0 = time.time()
        r = subprocess.run(["./check", p, "quick"], cwd="/verif", capture_output=True, text=True, timeout=3600)
        lines = [l for l in r.stdout.splitlines() if l.startswith("VIOLATION") or l.startswith(p + " ")]
        res[p] = {"rc": r.returncode, "lines": lines, "s": round(time.time() - t0, 1)}
        m = re.search(r"replay=(\S+)", r.stdout)
        if m and os.path.exists(os.path.join("/verif", m.group(1))):
            rp = json.load(open(os.path.join("/verif", m.group(1))))
            res[p]["replay_why"] = (rp.get("why") or str(rp.get("theorems_not_checking") or rp.get("correspondence_disagreements"))[:300])[:400]
            res[p]["replay_case"] = str(rp.get("case", {}).get("line", ""))[:200]
finally:
    subprocess.run("git -C /repo checkout -- .", shell=True, check=True)
meta.setdefault("rechecks", []).append({"when": time.strftime("%Y-%m-%d %H:%M"), "checks": res})
with_input = [p for p, v in res.items() if v["rc"] == 1 and not any("no-failing-input-found" in l for l in v["lines"])]
meta["detected_by"] = sorted(set((meta.get("detected_by") or []) + [p for p, v in res.items() if v["rc"] == 1]))
meta["detected_with_failing_input_by"] = sorted(set((meta.get("detected_with_failing_input_by") or []) + with_input))
json.dump(meta, open(f"{dst}/meta.json", "w"), indent=1)
for p, v in res.items():
    print(seed, p, v["lines"], v.get("replay_why", "")[:160])
