#!/usr/bin/env python3
"""Translator: etk-asm/src/parse/asm.pest, read by pest's own meta parser
(`etk-h dump-grammar`, pest_meta 2.1.3), rendered as Lean data for the generic
pest interpreter (EtkVerif/Asm/Pest.lean).  Built-in rules have fixed ids >= 1000
(EtkVerif/Asm/PestTypes.lean).

Normalisation (semantics preserving): the rules named in tools/grammar_rules.txt (the rule set the proofs were written
against) are numbered in that order; a rule that is NOT in that list and is silent (`_{ }`), non-recursive and not
WHITESPACE / COMMENT is INLINED at its uses and dropped — a silent rule emits no token and inherits the atomicity of its
caller, so `callRule` on it is `matchE` on its body (sequence / choice chains are re-associated to the left afterwards); any other new rule is appended after the known ones.  A helper rule
introduced by a refactoring of the grammar therefore leaves the generated value unchanged, while every change of what
the grammar accepts or emits still shows."""
import subprocess, sys, os, re

BUILTIN = {"SOI": 1000, "EOI": 1001, "ANY": 1002, "NEWLINE": 1003, "ASCII_DIGIT": 1004, "ASCII_BIN_DIGIT": 1005,
           "ASCII_OCT_DIGIT": 1006, "ASCII_HEX_DIGIT": 1007, "ASCII_ALPHA": 1008, "ASCII_ALPHANUMERIC": 1009}


def tokenize(s):
    return re.findall(r"\(|\)|\[[0-9,]*\]|[A-Za-z_][A-Za-z_0-9]*", s)


def parse(toks, i):
    assert toks[i] == "(", toks[i:i + 5]
    head = toks[i + 1]
    i += 2
    args = []
    while toks[i] != ")":
        if toks[i] == "(":
            a, i = parse(toks, i)
            args.append(a)
        else:
            args.append(toks[i]); i += 1
    return (head, args), i + 1


def render(e, ids):
    head, a = e
    if head == "str": return f"(.str {a[0].replace(',', ', ')})"
    if head == "range":
        lo = a[0].strip("[]"); hi = a[1].strip("[]")
        return f"(.range {lo} {hi})"
    if head == "ident":
        n = a[0]
        if n in ids: return f"(.ref {ids[n]})"
        if n in BUILTIN: return f"(.ref {BUILTIN[n]})"
        raise SystemExit(f"grammar refers to unknown rule {n}")
    if head == "seq": return f"(.seq {render(a[0], ids)} {render(a[1], ids)})"
    if head == "choice": return f"(.alt {render(a[0], ids)} {render(a[1], ids)})"
    if head == "opt": return f"(.opt {render(a[0], ids)})"
    if head == "rep": return f"(.star {render(a[0], ids)})"
    if head == "reponce": return f"(.plus {render(a[0], ids)})"
    if head == "neg": return f"(.neg {render(a[0], ids)})"
    if head == "pos": return f"(.pos {render(a[0], ids)})"
    raise SystemExit(f"grammar uses a pest construct the interpreter does not model: {head}")


def idents(e):
    head, a = e
    if head == "ident":
        return {a[0]}
    out = set()
    for x in a:
        if isinstance(x, tuple):
            out |= idents(x)
    return out


def subst(e, name, body):
    head, a = e
    if head == "ident":
        return body if a[0] == name else e
    return (head, [subst(x, name, body) if isinstance(x, tuple) else x for x in a])


def unparse(e):
    head, a = e
    return "(" + head + "".join(" " + (unparse(x) if isinstance(x, tuple) else x) for x in a) + ")"


def reassoc(e):
    """`a ~ (b ~ c)` and `(a ~ b) ~ c` (likewise `|`) are the same matcher — element, implicit skip, element, … — so chains
    are put in the left-nested form pest_meta gives a flat `a ~ b ~ c`"""
    head, a = e
    a = [reassoc(x) if isinstance(x, tuple) else x for x in a]
    if head in ("seq", "choice"):
        def flat(x):
            return flat(x[1][0]) + flat(x[1][1]) if isinstance(x, tuple) and x[0] == head else [x]
        items = flat((head, a))
        acc = items[0]
        for it in items[1:]:
            acc = (head, [acc, it])
        return acc
    return (head, a)


def normalise(rules):
    base_path = os.path.join(os.path.dirname(os.path.abspath(__file__)), "grammar_rules.txt")
    known = [l.strip() for l in open(base_path) if l.strip() and not l.startswith("#")] if os.path.exists(base_path) else []
    parsed = {n: (ty, parse(tokenize(sx), 0)[0]) for n, ty, sx in rules}
    order = [n for n, _, _ in rules]

    def reaches_self(n):
        seen, todo = set(), list(idents(parsed[n][1]))
        while todo:
            m = todo.pop()
            if m == n:
                return True
            if m in seen or m not in parsed:
                continue
            seen.add(m)
            todo += list(idents(parsed[m][1]))
        return False
    inlined = []
    for n in list(order):
        ty, body = parsed[n]
        if n in known or ty != "silent" or n in ("WHITESPACE", "COMMENT") or reaches_self(n):
            continue
        for m in parsed:
            if m != n:
                parsed[m] = (parsed[m][0], subst(parsed[m][1], n, body))
        inlined.append(n)
        del parsed[n]
        order.remove(n)
    final = [n for n in known if n in parsed] + [n for n in order if n not in known]
    return [(n, parsed[n][0], unparse(reassoc(parsed[n][1]) if inlined else parsed[n][1])) for n in final], inlined


def main():
    exe, dest, pest = sys.argv[1], sys.argv[2], sys.argv[3]
    dump = subprocess.run([exe, "dump-grammar", pest], check=True, capture_output=True, text=True).stdout
    rules = []
    for line in dump.splitlines():
        if not line.startswith("raw "):
            continue
        _, name, ty, sexpr = line.split(" ", 3)
        rules.append((name, ty, sexpr))
    rules, inlined = normalise(rules)
    ids = {n: i for i, (n, _, _) in enumerate(rules)}
    out = ["-- GENERATED by tools/gen_grammar.py from etk-asm/src/parse/asm.pest through `etk-h dump-grammar` (pest_meta). Do not edit.",
           "import EtkVerif.Asm.PestTypes", "namespace EtkVerif.Gen", "open EtkVerif.Pest", ""]
    if inlined:
        # reported on stdout (and from there in the evidence), not in the generated file: its content stays byte-identical
        print("normalised: silent helper rules inlined:", ", ".join(inlined))
    for n, i in ids.items():
        out.append(f"def R_{n} : Nat := {i}")
    out.append("")
    out.append("def grammar : List Rule := [")
    rows = []
    for n, ty, sx in rules:
        e, _ = parse(tokenize(sx), 0)
        cps = "[" + ", ".join(str(ord(c)) for c in n) + "]"
        rows.append(f"  ⟨{ids[n]}, {cps}, .{ty}, {render(e, ids)}⟩")
    out.append(",\n".join(rows))
    out.append("]")
    out.append("")
    out.append("end EtkVerif.Gen")
    text = "\n".join(out) + "\n"
    old = open(dest).read() if os.path.exists(dest) else None
    if old != text:
        open(dest, "w").write(text)
        print("regenerated", dest)


if __name__ == "__main__":
    main()
