"""Shared by C05 / C15 / C20: program generators, reply parsing, structural and
semantic oracles for the `cfg <hex>` line (impl: init + refined graph; model:
init graph + the query posed for every edge)."""
import re, subprocess
import common as C
import evmspec as S
import evmref as R

NAMED = ["address", "origin", "caller", "callvalue", "calldatasize", "codesize", "gasprice", "coinbase", "timestamp",
         "number", "difficulty", "gaslimit", "chainid", "basefee"]


def ends(op):
    s = S.of_fork("cancun", op)
    return s is None or op in R.ETK_UNDEFINED or s[2] or s[3]


def split_blocks(code):
    """reference separator: list of blocks, each a list of (off, op, imm)"""
    blocks, cur = [], []
    for ins in R.decode(code):
        if ins[1] == 0x5b and cur:
            blocks.append(cur); cur = []
        cur.append(ins)
        if ends(ins[1]):
            blocks.append(cur); cur = []
    if cur:
        blocks.append(cur)
    return blocks


def parse_graph(s):
    m = re.match(r"nodes=\[([^\]]*)\] edges=\[([^\]]*)\]", s)
    nodes = m.group(1).split(",") if m.group(1) else []
    edges = [tuple(e.split(">", 1)) for e in m.group(2).split(",")] if m.group(2) else []
    return nodes, edges


def parse_impl(reply):
    if not reply.startswith("init "):
        return None
    a, b = reply[5:].split(" refined ")
    return parse_graph(a), parse_graph(b), ("MALFORMED" in reply)


def canon(case, reply):
    """what is compared between implementation and model: the initial graph"""
    if reply is None:
        return None
    if reply.startswith("init "):
        body = reply[5:]
        for sep in (" refined ", " queries "):
            if sep in body:
                body = body.split(sep)[0]
        return "init " + body
    return reply


def label(off):
    return f"Offset:_0x{off:x}"


def structural(code, reply):
    """C20's predicates on the real DOT output"""
    p = parse_impl(reply)
    if p is None:
        return f"no graph: {reply[:80]}"
    (n0, e0), (n1, e1), malformed = p
    if malformed:
        return "rendering is not the expected DOT shape"
    blocks = split_blocks(code)
    want_nodes = ["<terminate>", "<bad-jump>"] + [label(b[0][0]) for b in blocks]
    for which, nodes, edges in (("initial", n0, e0), ("refined", n1, e1)):
        if nodes != want_nodes:
            return f"{which} graph nodes {nodes} != one per block plus terminate and bad-jump {want_nodes}"
        if len(set(edges)) != len(edges):
            return f"{which} graph names an edge twice"
        jd = {label(b[0][0]) for b in blocks if b[0][1] == 0x5b}
        for i, b in enumerate(blocks):
            src = label(b[0][0])
            nxt = label(blocks[i + 1][0][0]) if i + 1 < len(blocks) else None
            outs = [t for s, t in edges if s == src]
            for t in outs:
                if t not in jd and t != nxt and t not in ("<terminate>", "<bad-jump>"):
                    return f"{which}: edge {src}>{t} leads neither to a jumpdest block, the next block nor a special node"
            last = b[-1][1]
            end_pc = b[-1][0] + 1 + len(b[-1][2])
            if which == "refined":
                if not outs:
                    return f"refined: block {src} has no successor"
                if last not in (0x56, 0x57):
                    falls = not ends(last)
                    mand = (nxt if (falls and nxt is not None and blocks[i + 1][0][0] == end_pc) else "<terminate>")
                    if outs != [mand]:
                        return f"refined: block {src} (falls through / halts) has successors {outs}, expected exactly [{mand}]"
        for s, t in edges:
            if s in ("<terminate>", "<bad-jump>"):
                return f"{which}: special node {s} has a successor"
    if not set(e1) <= set(e0):
        return "refinement added an edge"
    return None


def local_executions(code, reply, rng, trials=6):
    """C05 per block: run the block on generated entry stacks; the transfer taken must be an edge of
    the initial and of the refined graph."""
    p = parse_impl(reply)
    if p is None:
        return f"no graph: {reply[:80]}"
    (n0, e0), (n1, e1), _ = p
    blocks = split_blocks(code)
    starts = {b[0][0]: b for b in blocks}
    jumpdests = {o for o, op, _ in R.decode(code) if op == 0x5b}
    boundary = [0, 1, 2, 3, 31, 32, 33, 255, 256, 257, (1 << 255) - 1, 1 << 255, (1 << 255) + 1, R.M - 1, R.M - 2, R.M - 8]
    for b in blocks:
        src = label(b[0][0])
        need = 0
        for t in range(trials):
            depth = 24
            pool = boundary + sorted(jumpdests)[:6] + [rng.getrandbits(256), rng.getrandbits(8), rng.getrandbits(16)]
            entry = [rng.choice(pool) for _ in range(depth)]
            stack, pc, out = list(entry), b[0][0], None
            # state-dependent reads: an arbitrary oracle stream (small values now and then so that equal / unequal
            # reads and jump destinations all occur)
            style = rng.randrange(3)
            def fresh(style=style):
                if style == 0: return rng.choice([0, 1])
                if style == 1: return rng.choice(pool)
                return rng.getrandbits(256)
            try:
                for o, op, imm in b:
                    r = R.step(op, imm, o, stack, fresh)
                    if r[0] == "next":
                        stack = r[1]
                    else:
                        out = r
                        break
                    pc = o + 1 + len(imm)
            except R.Underflow:
                continue
            if out is None:
                dest = pc
                tgt = label(dest) if dest in starts else "<terminate>"
            elif out[0] == "halt":
                tgt = "<terminate>"
            else:
                if out[0] == "jumpi" and out[2] == 0:
                    dest = b[-1][0] + 1
                    tgt = label(dest) if dest in starts else "<terminate>"
                else:
                    d = out[1]
                    tgt = label(d) if d in jumpdests else "<bad-jump>"
            for which, edges in (("initial", e0), ("refined", e1)):
                if (src, tgt) not in edges:
                    return (f"{which} graph lacks the edge {src}>{tgt} taken by executing block {src} on entry stack "
                            f"{[hex(x) for x in entry[:8]]}…")
    return None


def whole_execution(code, reply, rng, max_steps=400):
    """C05 whole program from pc 0 with an empty stack."""
    p = parse_impl(reply)
    if p is None:
        return None
    (n0, e0), (n1, e1), _ = p
    blocks = split_blocks(code)
    starts = {b[0][0]: b for b in blocks}
    jumpdests = {o for o, op, _ in R.decode(code) if op == 0x5b}
    pc, stack = 0, []
    for _ in range(max_steps):
        if pc not in starts:
            return None
        b = starts[pc]
        src, out = label(pc), None
        try:
            for o, op, imm in b:
                r = R.step(op, imm, o, stack)
                if r[0] == "next":
                    stack = r[1]
                else:
                    out = r; break
                pc = o + 1 + len(imm)
        except R.Underflow:
            return None
        if len(stack) > 1024:
            return None
        if out is None:
            nxt = pc
        elif out[0] == "halt":
            nxt = None
        elif out[0] == "jumpi" and out[2] == 0:
            nxt = b[-1][0] + 1; stack = out[3]
        else:
            stack = out[-1]
            nxt = out[1] if out[1] in jumpdests else "bad"
        tgt = "<terminate>" if nxt is None or (nxt != "bad" and nxt not in starts) else ("<bad-jump>" if nxt == "bad" else label(nxt))
        for which, edges in (("initial", e0), ("refined", e1)):
            if (src, tgt) not in edges:
                return f"{which} graph lacks the edge {src}>{tgt} taken by the execution from pc 0"
        if tgt in ("<terminate>", "<bad-jump>"):
            return None
        pc = nxt
    return None


# ------------------------------------------------------------------ generators

ARITH = [0x01, 0x02, 0x03, 0x04, 0x05, 0x06, 0x07, 0x08, 0x09, 0x0a, 0x0b, 0x10, 0x11, 0x12, 0x13, 0x14, 0x15, 0x16, 0x17,
         0x18, 0x19, 0x1a, 0x1b, 0x1c, 0x1d]
READS = [0x20, 0x30, 0x31, 0x32, 0x33, 0x34, 0x35, 0x36, 0x38, 0x3a, 0x3b, 0x3d, 0x3f, 0x40, 0x41, 0x42, 0x43, 0x44, 0x45,
         0x46, 0x47, 0x48, 0x51, 0x54, 0x58, 0x59, 0x5a]
OTHER = [0x37, 0x39, 0x3c, 0x3e, 0x50, 0x52, 0x53, 0x55, 0x5e, 0x5f, 0xa0, 0xa1, 0xa2, 0xa3, 0xa4, 0xf0, 0xf1, 0xf2, 0xf4, 0xf5, 0xfa]
HALT = [0x00, 0xf3, 0xfd, 0xfe, 0xff, 0x0c, 0x5c, 0xef]


def push(v, rng=None, width=None):
    n = max(1, (v.bit_length() + 7) // 8)
    if width:
        n = max(n, width)
    return bytes([0x5f + n]) + v.to_bytes(n, "big")


def gen_program(rng, nblocks=None, heavy_exp=False):
    """structured programs: blocks of arithmetic over pushes / inputs ending in jump / jumpi / halt / fall-through,
    with jump targets that are real jumpdest offsets, non-jumpdest offsets or computed values"""
    nblocks = nblocks or rng.choice([1, 2, 3, 4, 6])
    est = [i * 14 for i in range(nblocks + 1)]
    out = bytearray()
    boundary = [0, 1, 2, 31, 32, 255, 256, (1 << 255) - 1, 1 << 255, R.M - 1, R.M - 2, R.M - 7]
    for bi in range(nblocks):
        if bi > 0 and rng.random() < 0.8:
            out.append(0x5b)
        for _ in range(rng.randrange(0, 5)):
            r = rng.random()
            if r < 0.45:
                v = rng.choice(boundary + est + [rng.getrandbits(8), rng.getrandbits(256)])
                out += push(v)
            elif r < 0.75:
                op = rng.choice(ARITH)
                if op == 0x0a and not heavy_exp and rng.random() < 0.7:
                    op = 0x01
                out.append(op)
            elif r < 0.85:
                out.append(rng.choice(READS))
            elif r < 0.93:
                out.append(rng.randrange(0x80, 0x84) if rng.random() < 0.5 else rng.randrange(0x90, 0x93))
            else:
                out.append(rng.choice(OTHER))
        r = rng.random()
        if r < 0.3:
            out += push(rng.choice(est + [len(out) + 3, 1, 7])) + b"\x56"
        elif r < 0.55:
            out += push(rng.choice(est + [len(out) + 4])) + b"\x57"
        elif r < 0.65:
            out.append(0x56)
        elif r < 0.75:
            out.append(0x57)
        elif r < 0.87:
            out.append(rng.choice(HALT))
    if rng.random() < 0.15:
        out += bytes([rng.randrange(0x60, 0x80)])      # truncated trailing push
    return bytes(out)


def gen_fallthrough_jumpi(rng):
    """a jumpi whose TARGET is exactly the block that follows it (the fall-through block is also the jump target: the graph
    has ONE edge standing for both routes), with a condition that is a non-zero constant, zero, computed, or an input"""
    pre = bytearray()
    for _ in range(rng.randrange(0, 3)):
        pre += rng.choice([push(rng.getrandbits(8)), b"\x5b", b"\x58", b"\x50" if False else b"\x5a"])
    conds = [push(1), push(2), push(0), push(1 << 255), push(R.M - 1), push(0) + b"\x15", push(5) + b"\x15" + b"\x15",
             push(3) + push(4) + b"\x10", b"", b"\x33", b"\x36" + b"\x15"]
    cond = rng.choice(conds)
    base = len(pre) + len(cond)
    delta = rng.choice([0, 0, 0, 0, 1, -1])             # mostly exactly the following block, sometimes one off
    tgt = base + 2 + 1 + delta                          # push1 T (2 bytes) + jumpi (1 byte)
    body = bytes(pre) + cond + push(max(tgt, 0), width=1) + b"\x57"
    nxt = b"\x5b" if rng.random() < 0.85 else b"\x58"
    tail = rng.choice([b"\x00", b"\x58\x00", push(7) + b"\x56", b"", b"\x5b\x00"])
    return body + nxt + tail


def gen_loops(rng):
    """2-5 blocks with EXACT jump targets that form loops and back edges: a block falls through into a jumpdest block and
    a later block (or the block itself) jumps back to it; forward jumps over blocks; `jumpi` whose two routes go to
    different / the same block; unconditional jumps whose only feasible destination is one particular block — so that a
    missing edge leaves a block without successor or an execution without edge"""
    k = rng.choice([2, 3, 3, 4, 5])
    plan = []
    for i in range(k):
        jd = (i > 0 and rng.random() < 0.9) or (i == 0 and rng.random() < 0.3)
        body = rng.randrange(0, 3)
        term = rng.choice(["fall", "fall", "jump", "jump", "jump", "jumpi", "jumpi", "halt"]) if i < k - 1 else rng.choice(["jump", "jump", "jumpi", "halt", "fall"])
        plan.append([jd, body, term])
    size = lambda b: (1 if b[0] else 0) + 3 * b[1] + {"fall": 0, "jump": 3, "jumpi": 5, "halt": 1}[b[2]]
    offs, o = [], 0
    for b in plan:
        offs.append(o); o += size(b)
    jds = [offs[i] for i in range(k) if plan[i][0]] or [0]
    out = bytearray()
    for i, (jd, body, term) in enumerate(plan):
        if jd: out.append(0x5b)
        for _ in range(body):
            out += bytes([0x60, rng.randrange(256), 0x50])
        # mostly a real jumpdest block (earlier ones preferred: back edges), sometimes a non-jumpdest offset
        back = [x for x in jds if x <= offs[i]]
        tgt = rng.choice(back) if back and rng.random() < 0.6 else rng.choice(jds) if rng.random() < 0.9 else rng.choice([1, o, offs[i] + 1])
        if term == "jump":
            out += bytes([0x60, tgt & 0xff, 0x56])
        elif term == "jumpi":
            out += bytes([0x60, rng.choice([0, 1, 1, 2, 255]), 0x60, tgt & 0xff, 0x57])
        elif term == "halt":
            out.append(rng.choice([0x00, 0xf3, 0xfd, 0xfe]))
    return bytes(out)


def gen_highbits(rng):
    """jump targets of 2^64 and more whose LOW bits (64, 32, 16 or 8 of them) equal the offset of a real jumpdest: for the
    EVM such a jump is always a bad jump — a comparison that looks at a machine word only would take it for the jumpdest.
    Constant targets through push9..push32, through jumpi, and a symbolic target with forced high bits"""
    kind = rng.choice(["const", "const", "jumpi", "symbolic", "control"])
    lowbits = rng.choice([64, 64, 64, 32, 16, 8])
    hi = rng.choice([1, 1, 3, 1 << 63, (1 << 191) + 5, rng.getrandbits(100) | 1])
    if kind in ("const", "control"):
        n = rng.choice([9, 10, 16, 32]) if lowbits == 64 else rng.choice([5, 9, 32]) if lowbits == 32 else rng.choice([3, 9, 32]) if lowbits == 16 else rng.choice([2, 9, 32])
        off = n + 2
        val = ((hi << lowbits) | off) % (1 << (8 * n))
        if kind == "control" or val < (1 << lowbits):
            val = off                                     # the genuine jump: must stay an edge to the jumpdest
        code = bytes([0x5f + n]) + val.to_bytes(n, "big") + b"\x56" + b"\x5b\x00"
    elif kind == "jumpi":
        n = rng.choice([9, 12, 32])
        off = 2 + (n + 1) + 1 + 1                          # push1 c; pushN; jumpi; stop; jumpdest
        val = ((hi << 64) | off) % (1 << (8 * n))
        if val < (1 << 64): val |= 1 << 64
        code = bytes([0x60, rng.choice([0, 1, 1])]) + bytes([0x5f + n]) + val.to_bytes(n, "big") + b"\x57\x00\x5b\x00"
    else:
        # (calldataload(0) << 64) | 2^255 | off
        off = 2 + 1 + 2 + 1 + 33 + 1 + 1
        code = b"\x60\x00\x35\x60\x40\x1b" + b"\x7f" + ((1 << 255) | off).to_bytes(32, "big") + b"\x17\x56" + b"\x5b\x00"
    return code


def gen_double_read(rng):
    """two reads of the same state-dependent quantity (same argument) feeding a comparison that decides a branch or a
    jump target: the machine state may change between the reads (a call in between), so they need not be equal"""
    op = rng.choice([0x3d, 0x47, 0x59, 0x5a, 0x31, 0x3b, 0x3f, 0x51, 0x54, 0x20])
    k = S.of_fork("cancun", op)[0]
    def read():
        return b"".join(push(rng.choice([0, 1, 64])) for _ in range(k)) + bytes([op])
    code = bytearray(read())
    if rng.random() < 0.5:
        code += b"".join(push(0) for _ in range(7)) + b"\xf1\x50"      # a call in between, result dropped
    code += read()
    code.append(rng.choice([0x14, 0x10, 0x11, 0x03, 0x18]))
    tail_at = len(code) + 3 + 2
    if rng.random() < 0.6:
        code += push(tail_at, width=1) + b"\x57\x00\x5b\x00"
    else:
        code += b"\x56" + b"\x5b\x00" * 3
    return bytes(code)


def gen_opcode_probe(rng, op):
    """`op` computing a jump target / condition from boundary operands, followed by jumpdests at small offsets"""
    s = S.of_fork("cancun", op)
    k = s[0] if s else 0
    boundary = [0, 1, 2, 3, 5, 8, 10, 31, 32, 255, 256, (1 << 255) - 1, 1 << 255, R.M - 1, R.M - 2, R.M - 7, 1 << 253]
    code = bytearray()
    for _ in range(k):
        code += push(rng.choice(boundary))
    code.append(op)
    if rng.random() < 0.5:
        code += push(rng.choice([3, 255])) + b"\x16"       # and with a mask: keeps targets small
    code += b"\x56" if rng.random() < 0.6 else push(rng.choice([0, 1])) + b"\x90\x57\x00"
    # pad then jumpdests
    for _ in range(rng.randrange(1, 6)):
        code += b"\x5b" + (b"\x00" if rng.random() < 0.5 else b"")
    return bytes(code)


# ------------------------------------------------------------------ solver cross-check of the tie

KEYWORDS = {"not", "ite", "bvadd", "bvsub", "bvmul", "bvudiv", "bvsdiv", "bvurem", "bvsrem", "bvsmod", "bvand", "bvor",
            "bvxor", "bvshl", "bvlshr", "bvashr", "bvnot", "bvult", "bvugt", "bvslt", "bvsgt", "extract", "zero_extend",
            "int2bv", "bv2int", "_"}


def z3_unsat(asserts: str, timeout_s=10):
    """True = unsat, False = sat, None = unknown/timeout; query text as printed by the model"""
    syms = set(re.findall(r"[A-Za-z_][A-Za-z_0-9]*(?:![0-9]+)?", asserts)) - KEYWORDS
    decls = []
    for s_ in sorted(syms):
        if s_ in ("calldataload", "blockhash"):
            decls.append(f"(declare-fun {s_} ((_ BitVec 256)) (_ BitVec 256))")
        else:
            decls.append(f"(declare-const {s_} (_ BitVec 256))")
    # split the top-level s-expressions of the assertion list
    parts, depth, cur = [], 0, ""
    for ch in asserts:
        cur += ch
        if ch == "(":
            depth += 1
        elif ch == ")":
            depth -= 1
            if depth == 0:
                parts.append(cur.strip()); cur = ""
    script = "\n".join(decls + [f"(assert {p})" for p in parts] + ["(check-sat)"])
    try:
        r = subprocess.run(["z3", "-in", f"-T:{timeout_s}"], input=script, capture_output=True, text=True, timeout=timeout_s + 5)
    except subprocess.TimeoutExpired:
        return None
    out = r.stdout.strip().splitlines()
    if out and out[0] == "unsat":
        return True
    if out and out[0] == "sat":
        return False
    if out and out[0].startswith("(error"):
        return "error: " + out[0][:200]      # the query as the model prints it is not even well formed for z3
    return None


def tie_check(case, impl, model):
    """initial graph equal; every edge the implementation removed has a query the model says is
    constant-false or that the system z3 finds unsat; constant-true edges are kept"""
    if not case["line"].startswith("cfg "):
        return None if impl == model else "replies differ"
    if canon(case, impl) != canon(case, model):
        return "initial graphs differ"
    if not impl.startswith("init "):
        return None
    (n0, e0), (n1, e1), _ = parse_impl(impl)
    qs = {}
    body = model.split(" queries ", 1)[1] if " queries " in model else ""
    for item in [x for x in body.split(";") if x]:
        edge, ans = item.split("=", 1)
        qs[tuple(edge.split(">", 1))] = ans
    kept = set(e1)
    for e in e0:
        ans = qs.get(e)
        if ans is None:
            return f"model poses no query for edge {e}"
        if e in kept:
            continue
        if ans == "T":
            return f"edge {e[0]}>{e[1]} is mandatory (constant answer) but the implementation removed it"
        if ans == "F":
            continue
        u = z3_unsat(ans)
        if isinstance(u, str):
            return f"the system z3 rejects the model's query for edge {e[0]}>{e[1]}: {u}"
        if u is False:
            return f"implementation removed edge {e[0]}>{e[1]} although its query (as the model builds it) is satisfiable"
    for e in kept:
        if qs.get(e) == "F":
            return f"edge {e[0]}>{e[1]} has a constant-false answer but survived refinement"
    return None
