#!/usr/bin/env python3
"""./check <Cxx> [quick|thorough] [--replay FILE]

proof obligations -> tie (correspondence) -> search -> verdict   (DESIGN.md section 3)
"""
import importlib, json, os, sys, time, traceback

sys.path.insert(0, os.path.dirname(os.path.abspath(__file__)))
import common as C


def load(pid):
    return importlib.import_module("props." + pid.lower())


def exe_for(case):
    return C.ANA_EXE if case.get("exe") == "analyze" else C.CORE_EXE


IMPL_RUNNER = None     # a plugin may run the implementation itself (C18: under strace, to observe the files opened)


def run_cases(cases, which):
    """which = 'impl' | 'model'; groups by executable, keeps order."""
    if which == "impl" and IMPL_RUNNER is not None:
        return IMPL_RUNNER(cases)
    replies = [None] * len(cases)
    groups = {}
    for i, c in enumerate(cases):
        exe = exe_for(c) if which == "impl" else C.MODEL_EXE
        groups.setdefault((exe, c.get("cwd")), []).append(i)
    for (exe, cwd), idxs in groups.items():
        runner = C.run_lines_parallel if (which == "impl" and exe == C.ANA_EXE) else C.run_lines
        key = "model_line" if which == "model" else "line"
        outs = runner(exe, [cases[i].get(key) or cases[i]["line"] for i in idxs], timeout=cases[idxs[0]].get("timeout", 900), cwd=cwd)
        for i, o in zip(idxs, outs):
            replies[i] = o
    return replies


def main():
    args = [a for a in sys.argv[1:]]
    if not args:
        print(__doc__)
        return 2
    pid = args[0].upper()
    tier = os.environ.get("VERIF_TIER", "quick")
    replay = None
    i = 1
    while i < len(args):
        if args[i] in ("quick", "thorough"):
            tier = args[i]
        elif args[i] == "--replay":
            replay = args[i + 1]
            i += 1
        i += 1
    seed = int(os.environ.get("VERIF_SEED", "1"))
    P = load(pid)
    global IMPL_RUNNER
    IMPL_RUNNER = getattr(P, "impl_runner", None)
    t0 = time.time()
    rng = C.Rng(seed * 1000003 + sum(map(ord, pid)))

    # ---- 1. rebuild from /repo's working tree, regenerate Lean data
    try:
        with C.Lock():
            C.build_core()
            if "analyze" in getattr(P, "NEEDS", ()):
                C.build_analyze()
            regenerated = C.regenerate()
            exe_ok, exe_out = C.lake_build(["etkmodel"])
            if not exe_ok:
                # the driver only depends on model files and generated data
                C.log(exe_out[-3000:])
            proof_ok, proof_out = C.lake_build(P.LEAN_TARGETS)
            obligations = discharged = 0
            closure = set(C.import_closure(P.LEAN_TARGETS))
            details, problems = {}, [msg for mod, msg in C.TRANSLATOR_PROBLEMS if mod in closure]
            if proof_ok:
                obligations, discharged, details, problems2 = C.audit(pid)
                problems += problems2
                hits = C.source_grep(P.LEAN_TARGETS)
                if hits:
                    problems += ["forbidden token: " + h for h in hits]
                if tier == "thorough":
                    problems += C.leanchecker(P.LEAN_TARGETS)
                problems += C.lock_drift()
                if getattr(P, "PANIC_FILES", None):
                    d = C.panic_site_diff(P.PANIC_FILES)
                    if d:
                        problems.append("panic-site inventory differs from the ledger the models account for "
                                        "(tools/panic_ledger.txt): " + "; ".join(d[:8]))
            else:
                thms = C.prop_theorems(pid)
                obligations = len(thms)
                problems.append("lake build failed: " + "\n".join(
                    l for l in proof_out.splitlines() if "error" in l.lower())[:3000])
    except C.Infra as e:
        print(f"INFRASTRUCTURE FAILURE (not a verdict on {pid}):\n{e}")
        return 2

    if replay:
        rp = json.load(open(os.path.join(C.VERIF, replay) if not os.path.isabs(replay) else replay))
        case = rp.get("case") or {"line": rp["line"]}
        if hasattr(P, "prepare"):
            P.prepare([case])
        impl = run_cases([case], "impl")[0]
        model = run_cases([case], "model")[0] if exe_ok and not case.get("impl_only") else None
        why = P.oracle(case, impl)
        tie = None
        if model is not None:
            if hasattr(P, "tie_check"):
                tie = P.tie_check(case, impl, model)
            else:
                cn = getattr(P, "canon", lambda c, r: r)
                tie = None if cn(case, impl) == cn(case, model) else "model and implementation replies differ"
        print(json.dumps({"case": case, "impl": impl, "model": model, "property_failure": why, "tie_disagreement": tie}, indent=1))
        return 1 if (why or tie) else 0

    # ---- 2. cases: corpus first, then generated
    cases = []
    corpus_dir = os.path.join(C.VERIF, "corpus", pid)
    if os.path.isdir(corpus_dir):
        for f in sorted(os.listdir(corpus_dir)):
            if f.endswith(".json"):
                o = json.load(open(os.path.join(corpus_dir, f)))
                c = dict(o["case"])
                c["corpus"] = f
                cases.append(c)
    cases += P.cases(rng, tier)
    if hasattr(P, "prepare"):
        P.prepare(cases)
    impl = run_cases(cases, "impl")
    tie_cases = [c for c in cases if not c.get("impl_only")]
    model = {}
    if exe_ok:
        mo = run_cases(tie_cases, "model")
        model = {id(c): o for c, o in zip(tie_cases, mo)}

    disagreements, failures = [], []
    canon = getattr(P, "canon", lambda case, reply: reply)
    rejects, rejected_cases = 0, []
    for c, r in zip(cases, impl):
        if r == "timeout" and not c.get("time_observable") and c.get("exe") == "analyze":
            # a solver time-out of the analysis pipeline: a rejected case, not a disagreement (DESIGN 3) — up to a small
            # allowance, checked below.  The core harness (assembler, disassembler, separator, annotator, hex adapters)
            # has no business taking seconds: there a request without an answer goes on to the tie and the oracle.
            rejects += 1
            rejected_cases.append(c)
            continue
        if not c.get("impl_only"):
            m = model.get(id(c))
            if hasattr(P, "tie_check"):
                d = "model driver gave no reply" if m is None else P.tie_check(c, r, m)
                if d:
                    disagreements.append({"case": c, "impl": r[:2000], "model": (m or "")[:2000], "why": d})
            elif m is None or canon(c, r) != canon(c, m):
                disagreements.append({"case": c, "impl": r, "model": m})
        why = P.oracle(c, r)
        if not why and r in ("timeout", "abort") and c.get("exe") != "analyze":
            why = f"the implementation gave no answer ({r}) on this input"
        if why:
            failures.append({"case": c, "impl": r, "why": why})
    n_analyze = sum(1 for c in cases if c.get("exe") == "analyze")
    allowed = max(2, n_analyze // 50)
    if rejects > allowed:
        failures.append({"case": rejected_cases[0], "impl": "timeout",
                         "why": f"the analysis pipeline gave no answer within the time limit on {rejects} of {n_analyze} cases "
                                f"(at most {allowed} solver time-outs are tolerated); first such input attached"})

    # ---- 3. known findings (replayed on the implementation; never written at run time)
    known = [k for k in C.known_findings(pid) if k.get("status") == "finding"]
    known_lines = {}
    for k in known:
        kc = json.load(open(os.path.join(C.VERIF, k["replay"])))["case"]
        known_lines[kc["line"]] = k
    known_hit, new_failures = [], []
    for f in failures:
        k = known_lines.get(f["case"]["line"])
        if k is None:
            # a finding about a CALL SITE rather than one input: the oracle marks the failures it explains
            k = next((x for x in known if x.get("why_prefix") and f["why"].startswith(x["why_prefix"])), None)
        if k is not None and k.get("why_prefix") and not f["why"].startswith(k["why_prefix"]):
            k = None          # the corpus input of a finding now fails for a DIFFERENT reason: a new violation
        if k is not None and k.get("reply_prefix") and not (f["impl"] or "").startswith(k["reply_prefix"]):
            k = None          # … or in a different way (e.g. a panic where the finding is a time-out)
        if k is not None:
            known_hit.append((k, f))
        else:
            new_failures.append(f)

    # ---- 4. evidence
    nontriv = set()
    tags = {}
    for c, r in zip(cases, impl):
        if P.nontrivial(c, r):
            nontriv.add(c["line"])
        for t in c.get("tags", []):
            tags[t] = tags.get(t, 0) + 1
    kinds = {}
    for r in impl:
        k = (r or "").split(" ")[0][:24]
        kinds[k] = kinds.get(k, 0) + 1
    coverage = {
        "obligations": obligations,
        "discharged": discharged,
        "checker_cmd": f"cd lean && lake build {' '.join(P.LEAN_TARGETS)} && lake env lean EtkVerif/Audit/{pid}.lean"
                       + (" && lake env leanchecker <modules>" if tier == "thorough" else ""),
        "trusted_base": C.TRUSTED_BASE + getattr(P, "TRUSTED_EXTRA", []),
        "theorems": details,
        "proof_problems": problems,
        "regenerated_this_run": regenerated,
        "panic_ledger_drift": list(C.LEDGER_DRIFT),
        "evaluations": len(cases),
        "distinct_nontrivial": len(nontriv),
        "rule": P.RULE,
        "samples": [{"line": c["line"][:400], "impl": (r or "")[:300]} for c, r in list(zip(cases, impl))[:: max(1, len(cases) // 6)][:8]],
        "traces_validated_against_impl": len(tie_cases),
        "model_vs_impl_disagreements": len(disagreements),
        "impl_vs_spec_failures": len(failures),
        "known_findings_replayed": len(known_hit),
        "cases_rejected_for_timeout": rejects,
        "input_tags": tags,
        "impl_reply_kinds": kinds,
        "exhaustive": bool(getattr(P, "EXHAUSTIVE", {}).get(tier, False)),
    }
    if hasattr(P, "extra_coverage"):
        coverage.update(P.extra_coverage(cases, impl))

    # ---- 5. verdict
    rc = 0
    for fails in dict.fromkeys(k["fails"] for k, f in known_hit):
        print(f"KNOWN-FINDING: property={pid} {fails}")
    proofs_hold = proof_ok and not problems and obligations > 0 and discharged == obligations
    if new_failures:
        f = new_failures[0]
        if hasattr(P, "shrink"):
            try:
                f = P.shrink(f, lambda c: P.oracle(c, run_cases([c], "impl")[0]))
            except Exception:
                traceback.print_exc()
        path = C.write_replay(pid, seed, "input", {
            "case": f["case"], "impl": f["impl"], "why": f["why"],
            "model": model.get(id(f["case"])), "other_failures": len(new_failures) - 1})
        print(f"VIOLATION property={pid} replay={path}")
        rc = 1
    elif not proofs_hold or disagreements or not exe_ok:
        # the property is no longer shown to hold; search found no failing input
        extra = None
        if hasattr(P, "obligation_search"):
            try:
                extra = P.obligation_search()
            except Exception:
                traceback.print_exc()
        if extra:
            path = C.write_replay(pid, seed, "input", extra)
            print(f"VIOLATION property={pid} replay={path}")
        else:
            path = C.write_replay(pid, seed, "obligation" if not proofs_hold else "tie", {
                "theorems_not_checking": problems,
                "model_driver_built": exe_ok,
                "correspondence_disagreements": disagreements[:5],
                "note": "no input on which the implementation violates the property was found; "
                        "the proof obligation or the model/implementation correspondence named here no longer checks"})
            print(f"VIOLATION property={pid} replay={path} no-failing-input-found")
        rc = 1
    C.write_evidence(pid, tier, seed, coverage, getattr(P, "ASSUMPTIONS", []), time.time() - t0,
                     len(new_failures) + (0 if rc == 0 or new_failures else 1))
    print(f"{pid} {tier}: obligations {discharged}/{obligations}, cases {len(cases)}, "
          f"model-vs-impl disagreements {len(disagreements)}, impl-vs-spec failures {len(failures)} "
          f"({len(known_hit)} known), {time.time() - t0:.1f}s -> {'OK' if rc == 0 else 'VIOLATION'}")
    return rc


if __name__ == "__main__":
    sys.exit(main())
