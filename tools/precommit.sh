#!/bin/sh
# what must hold before committing: the root Lean target and the driver build (name clashes between modules only
# show up when everything is imported together), and MANIFEST.json is regenerated and valid
set -e
cd "$(dirname "$0")/.."
# generated Lean data may be stale (e.g. left over from a run against a seeded change): regenerate from /repo first
python3 -c "import sys; sys.path.insert(0, 'tools'); import common as C; C.build_core(); print('regenerated:', C.regenerate())"
(cd lean && lake build EtkVerif etkmodel 2>&1 | grep -v "^✔" | tail -5)
python3 tools/gen_manifest.py > /dev/null
python3 - <<'PY'
import json, sys
m = json.load(open("MANIFEST.json"))
ids = [c["property_id"] for c in m["checks"]]
assert sorted(ids) == [f"C{i:02d}" for i in range(1, 21)], ids
print("manifest ok:", len(ids), "checks")
PY
