#!/bin/sh
# what must hold before committing: the root Lean target and the driver build (name clashes between modules only
# show up when everything is imported together), and MANIFEST.json is regenerated and valid
set -e
cd "$(dirname "$0")/.."
# generated Lean data may be stale (e.g. left over from a run against a seeded change): regenerate from /repo first
python3 -c "import sys; sys.path.insert(0, 'tools'); import common as C; C.build_core(); print('regenerated:', C.regenerate())"
(cd lean && lake build EtkVerif etkmodel 2>&1 | grep -v "^✔" | tail -5)
python3 tools/gen_manifest.py > /dev/null
python3 - <<'PY'
import json, sys
m = json.load(open("MANIFEST.json"))
ids = [c["property_id"] for c in m["checks"]]
assert sorted(ids) == [f"C{i:02d}" for i in range(1, 21)], ids
print("manifest ok:", len(ids), "checks")
PY
# committed evidence must come from runs on the UNCHANGED tree: an evidence file left over from a run against a seeded
# change (violations, undischarged obligations) is refreshed here
python3 - <<'PY'
import json, glob, subprocess, sys
assert subprocess.run("git -C /repo status --porcelain", shell=True, capture_output=True, text=True).stdout.strip() == "", "/repo is not clean"
for f in sorted(glob.glob("evidence/C*.json")):
    e = json.load(open(f)); cov = e.get("coverage", {})
    stale = cov.get("discharged") != cov.get("obligations") or e.get("violations", 0) != 0 or e.get("tier") != "quick" or cov.get("proof_problems")
    if stale:
        pid = e["property_id"]
        r = subprocess.run(["./check", pid, "quick"], capture_output=True, text=True)
        print("refreshed", pid, r.stdout.strip().splitlines()[-1])
        assert r.returncode == 0, r.stdout[-2000:]
PY

