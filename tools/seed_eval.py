#!/usr/bin/env python3
"""seed_eval.py <seed-id> <property> <worktree> [<other properties to run>...]
Confirms a seeded change in its scratch worktree (existing suite passes with it; the demonstration fails with it and
passes without it), stores it under /verif/seeded/<seed-id>/, then applies it to /repo, runs the checks, undoes it."""
import json, os, re, shutil, subprocess, sys, time

seed, pid, wt = sys.argv[1], sys.argv[2], sys.argv[3]
others = sys.argv[4:]
ENV = dict(os.environ, CARGO_TARGET_DIR="/tmp/confirmtarget", CARGO_NET_OFFLINE="true")
dst = f"/verif/seeded/{seed}"
os.makedirs(dst, exist_ok=True)

def sh(cmd, cwd=None, timeout=3600):
    r = subprocess.run(cmd, shell=True, cwd=cwd, env=ENV, capture_output=True, text=True, timeout=timeout)
    return r.returncode, (r.stdout + r.stderr)

src_wt = wt
patch = open(f"{wt}/SEED_PATCH.diff").read()
demo_txt = open(f"{wt}/SEED_DEMO_PATH.txt").read()
notes = open(f"{wt}/SEED_NOTES.md").read()
open(f"{dst}/patch.diff", "w").write(patch)
open(f"{dst}/NOTES.md", "w").write(notes)
open(f"{dst}/DEMO.txt", "w").write(demo_txt)
# demo files: every path mentioned that exists in the worktree
demos = [m for m in re.findall(r"[\w./-]+\.(?:rs|toml|etk|sh)", demo_txt) if os.path.isfile(os.path.join(wt, m)) and "seeded" in m or "demo" in m.lower()]
demos = sorted(set(d for d in demos if os.path.isfile(os.path.join(wt, d))))
for d in demos:
    os.makedirs(os.path.dirname(f"{dst}/demo/{d}"), exist_ok=True)
    shutil.copy(os.path.join(wt, d), f"{dst}/demo/{d}")
cmd = None
for line in demo_txt.splitlines():
    if "cargo" in line:
        cmd = line.strip().strip("`")
        cmd = cmd[cmd.index("cd "):] if "cd " in cmd else cmd
        cmd = re.sub(r"^\s*(command:)?\s*", "", cmd, flags=re.I)
# confirmation happens in a FRESH worktree of /repo's HEAD with its own target directory (the seeding worktrees share
# a target directory and a stash, which makes them unreliable witnesses)
wt = f"/tmp/confirm-{seed}"
subprocess.run(f"git -C /repo worktree remove --force {wt}", shell=True, capture_output=True)
subprocess.run(f"git -C /repo worktree add -q {wt} HEAD", shell=True, check=True)
shutil.copy(f"{src_wt}/SEED_PATCH.diff", f"{wt}/SEED_PATCH.diff")
subprocess.run("git apply SEED_PATCH.diff", shell=True, cwd=wt, check=True)
def place_demo():
    for d in demos:
        os.makedirs(os.path.dirname(os.path.join(wt, d)), exist_ok=True)
        shutil.copy(os.path.join(src_wt, d), os.path.join(wt, d))
if cmd:
    cmd = re.sub(r"CARGO_TARGET_DIR=\S+\s*", "", cmd)
    cmd = re.sub(r"cd\s+/tmp/seed\w+(-demo)?", "cd " + wt, cmd)
meta = {"seed": seed, "breaks": pid, "demo_cmd": cmd, "demo_files": demos, "ran": []}

# 1. state of the worktree: change applied?
rc, out = sh("git diff --stat -- . ':!*seeded_demo*' | tail -1", cwd=wt)
meta["worktree_diffstat"] = out.strip()
# 2. suite with the change
rc, out = sh("cargo test --offline -p etk-ops -p etk-asm -p etk-dasm -p etk-analyze -p etk-cli 2>&1 | grep -E '^test result|FAILED|error(\\[|:)' ", cwd=wt)
passed = sum(int(x) for x in re.findall(r"(\d+) passed", out)); failed = sum(int(x) for x in re.findall(r"(\d+) failed", out))
meta["suite_with_change"] = {"passed": passed, "failed": failed, "errors": bool(re.search(r"^error", out, re.M))}
if meta["suite_with_change"]["errors"]:
    print(out[-1500:])
meta["ran"].append("cargo test --offline -p etk-ops -p etk-asm -p etk-dasm -p etk-analyze -p etk-cli (with the change)")
place_demo()
# 3. demo with change -> must fail
rc1, out1 = sh(cmd, cwd=wt) if cmd else (None, "no command")
meta["demo_with_change_rc"] = rc1
# 4. demo without change -> must pass
rcR, outR = sh("git apply -R SEED_PATCH.diff", cwd=wt)
rc2, out2 = sh(cmd, cwd=wt) if cmd else (None, "no command")
meta["demo_without_change_rc"] = rc2
sh("git apply SEED_PATCH.diff", cwd=wt)
meta["ran"] += [f"{cmd} (with the change: rc={rc1})", f"git apply -R SEED_PATCH.diff; {cmd} (rc={rc2}); git apply SEED_PATCH.diff"]
meta["confirmed"] = bool(failed == 0 and not meta["suite_with_change"]["errors"] and passed >= 253 and rc1 not in (0, None) and rc2 == 0 and rcR == 0)
# 5. run my checks against it
results = {}
rcA, outA = sh(f"git -C /repo apply {dst}/patch.diff")
if rcA != 0:
    results["apply"] = outA
else:
    try:
        for p in [pid] + others:
            t0 = time.time()
            r = subprocess.run(["./check", p, "quick"], cwd="/verif", capture_output=True, text=True, timeout=3600)
            lines = [l for l in r.stdout.splitlines() if l.startswith("VIOLATION") or l.startswith(p + " ")]
            results[p] = {"rc": r.returncode, "lines": lines, "s": round(time.time() - t0, 1)}
            m = re.search(r"replay=(\S+)", r.stdout)
            if m and os.path.exists(os.path.join("/verif", m.group(1))):
                rp = json.load(open(os.path.join("/verif", m.group(1))))
                results[p]["replay_why"] = (rp.get("why") or str(rp.get("theorems_not_checking") or rp.get("correspondence_disagreements"))[:300])[:400]
                results[p]["replay_case"] = str(rp.get("case", {}).get("line", ""))[:200]
    finally:
        sh("git -C /repo checkout -- .")
subprocess.run(f"git -C /repo worktree remove --force {wt}", shell=True, capture_output=True)
meta["checks"] = results
meta["detected_by"] = [p for p, v in results.items() if isinstance(v, dict) and v.get("rc") == 1]
json.dump(meta, open(f"{dst}/meta.json", "w"), indent=1)
print(json.dumps({k: meta[k] for k in ("seed", "breaks", "confirmed", "suite_with_change", "demo_with_change_rc", "demo_without_change_rc", "detected_by")}, indent=1))
for p, v in results.items():
    print(p, v if not isinstance(v, dict) else (v.get("lines"), v.get("replay_why", "")[:200]))
