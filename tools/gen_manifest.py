#!/usr/bin/env python3
"""Writes MANIFEST.json from the per-property plugin metadata (tools/props/*.py: MANIFEST dict)."""
import importlib, json, os, sys
sys.path.insert(0, os.path.dirname(os.path.abspath(__file__)))
VERIF = os.path.dirname(os.path.dirname(os.path.abspath(__file__)))
ALL = [f"C{i:02d}" for i in range(1, 21)]
checks, na = [], []
for pid in ALL:
    try:
        P = importlib.import_module("props." + pid.lower())
        M = P.MANIFEST
    except Exception as e:
        na.append({"property_id": pid, "reason": "check not built yet (work in progress; see DESIGN.md section 6." + pid + ")"})
        continue
    checks.append({
        "property_id": pid,
        "quick_cmd": f"./check {pid} quick",
        "thorough_cmd": f"./check {pid} thorough",
        "evidence_file": f"evidence/{pid}.json",
        "replay_cmd_template": f"./check {pid} --replay {{path}}",
        "engine": "lean4-proof+correspondence",
        "level_claimed": {"category": "proof", "text": M["text"], "design_ref": "6." + pid},
        "level_note": M["note"],
        "technique": M["technique"],
    })
manifest = {
    "version": 1,
    "setup_cmd": "./setup.sh",
    "hooks": {
        "guard": "verif-hooks",
        "enable": "cargo feature `verif-hooks` on etk-cli and etk-analyze (harness crates depend on /repo by path with that feature on)",
        "baseline_off_cmd": "cd /repo && cargo test --workspace --no-fail-fast --offline",
        "source_commits": json.load(open(os.path.join(VERIF, "hooks.json")))["source_commits"],
        "add_only": True,
    },
    "engines": [
        {"name": "lean4-proof+correspondence", "path": "lean/ + harness/ + tools/",
         "serves_properties": [c["property_id"] for c in checks],
         "kind_free_text": "Lean 4 theorems about executable models (lake project EtkVerif), re-checked on every run together with "
                           "data regenerated from /repo by translators; models tied to /repo by a differential correspondence run "
                           "(Rust harness linking the real crates vs compiled Lean driver) and an independent Python oracle for the search"},
    ],
    "checks": checks,
    "not_applicable": na,
    "notes": "See DESIGN.md. `./check Cxx quick|thorough`; known findings in known_findings.jsonl; seeded mutants in seeded/.",
}
json.dump(manifest, open(os.path.join(VERIF, "MANIFEST.json"), "w"), indent=1)
print("claimed:", [c["property_id"] for c in checks])
