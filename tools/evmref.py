"""Reference EVM semantics restricted to program counter and stack (DESIGN 5.4),
independent of the Lean model: used by the search oracles of C05/C06/C15/C20.
State-dependent reads are answered by a deterministic function of their name and
arguments (one admissible choice of the oracle stream)."""
import hashlib
import evmspec as S

M = 1 << 256
ARITY = {}
for n in "add mul sub div sdiv mod smod exp lt gt slt sgt eq and or xor byte shl shr sar signextend keccak256".split():
    ARITY[n] = 2
for n in "iszero not calldataload extcodesize extcodehash blockhash balance mload sload".split():
    ARITY[n] = 1
for n in ("address origin caller callvalue calldatasize codesize gasprice returndatasize coinbase timestamp number "
          "difficulty gaslimit chainid selfbalance basefee msize gas").split():
    ARITY[n] = 0
ARITY.update({"addmod": 3, "mulmod": 3, "create": 3, "create2": 4, "call": 7, "callcode": 7, "delegatecall": 6, "staticcall": 6})


def sgn(x):
    return x - M if x >> 255 else x


def H(name, args=()):
    h = hashlib.sha256((name + ":" + ",".join(str(a) for a in args)).encode()).digest()
    v = int.from_bytes(h, "big")
    # small values now and then, so that reads can hit jump destinations
    return v % 64 if h[0] < 64 else v


def apply(name, a):
    if name == "add": return (a[0] + a[1]) % M
    if name == "mul": return (a[0] * a[1]) % M
    if name == "sub": return (a[0] - a[1]) % M
    if name == "div": return 0 if a[1] == 0 else a[0] // a[1]
    if name == "mod": return 0 if a[1] == 0 else a[0] % a[1]
    if name == "sdiv":
        if a[1] == 0: return 0
        x, y = sgn(a[0]), sgn(a[1]); q = abs(x) // abs(y)
        return (q if (x < 0) == (y < 0) else -q) % M
    if name == "smod":
        if a[1] == 0: return 0
        x, y = sgn(a[0]), sgn(a[1]); r = abs(x) % abs(y)
        return (-r if x < 0 else r) % M
    if name == "addmod": return 0 if a[2] == 0 else (a[0] + a[1]) % a[2]
    if name == "mulmod": return 0 if a[2] == 0 else (a[0] * a[1]) % a[2]
    if name == "exp": return pow(a[0], a[1], M)
    if name == "signextend":
        b, x = a
        if b >= 31: return x
        bits = 8 * (b + 1); low = x % (1 << bits)
        return (low - (1 << bits)) % M if low >> (bits - 1) else low
    if name == "lt": return int(a[0] < a[1])
    if name == "gt": return int(a[0] > a[1])
    if name == "slt": return int(sgn(a[0]) < sgn(a[1]))
    if name == "sgt": return int(sgn(a[0]) > sgn(a[1]))
    if name == "eq": return int(a[0] == a[1])
    if name == "iszero": return int(a[0] == 0)
    if name == "and": return a[0] & a[1]
    if name == "or": return a[0] | a[1]
    if name == "xor": return a[0] ^ a[1]
    if name == "not": return (M - 1) ^ a[0]
    if name == "byte": return 0 if a[0] >= 32 else (a[1] >> (8 * (31 - a[0]))) & 0xff
    if name == "shl": return 0 if a[0] >= 256 else (a[1] << a[0]) % M
    if name == "shr": return 0 if a[0] >= 256 else a[1] >> a[0]
    if name == "sar":
        x = sgn(a[1])
        return ((-1 if x < 0 else 0) if a[0] >= 256 else x >> a[0]) % M
    return H(name, a)      # environment and state-dependent reads


OPNAME = {0x01: "add", 0x02: "mul", 0x03: "sub", 0x04: "div", 0x05: "sdiv", 0x06: "mod", 0x07: "smod", 0x08: "addmod",
          0x09: "mulmod", 0x0a: "exp", 0x0b: "signextend", 0x10: "lt", 0x11: "gt", 0x12: "slt", 0x13: "sgt", 0x14: "eq",
          0x15: "iszero", 0x16: "and", 0x17: "or", 0x18: "xor", 0x19: "not", 0x1a: "byte", 0x1b: "shl", 0x1c: "shr",
          0x1d: "sar", 0x20: "keccak256", 0x30: "address", 0x31: "balance", 0x32: "origin", 0x33: "caller",
          0x34: "callvalue", 0x35: "calldataload", 0x36: "calldatasize", 0x38: "codesize", 0x3a: "gasprice",
          0x3b: "extcodesize", 0x3d: "returndatasize", 0x3f: "extcodehash", 0x40: "blockhash", 0x41: "coinbase",
          0x42: "timestamp", 0x43: "number", 0x44: "difficulty", 0x45: "gaslimit", 0x46: "chainid", 0x47: "selfbalance",
          0x48: "basefee", 0x51: "mload", 0x54: "sload", 0x59: "msize", 0x5a: "gas", 0xf0: "create", 0xf1: "call",
          0xf2: "callcode", 0xf4: "delegatecall", 0xf5: "create2", 0xfa: "staticcall"}
POPONLY = {0x37: 3, 0x39: 3, 0x3c: 4, 0x3e: 3, 0x50: 1, 0x52: 2, 0x53: 2, 0x55: 2, 0x5e: 3, 0xa0: 2, 0xa1: 3, 0xa2: 4, 0xa3: 5, 0xa4: 6}
ETK_UNDEFINED = {0x49, 0x4a, 0x5c, 0x5d}
# the four Cancun opcodes etk's own `cancun` table does not define (finding D27): (name, pops, pushes a value read from
# the state).  With REAL_CANCUN False (default) the reference follows etk's opcode set (they are invalid = halting
# instructions); with REAL_CANCUN True it follows the Cancun EVM.
CANCUN_EXTRA = {0x49: ("blobhash", 1, True), 0x4a: ("blobbasefee", 0, True), 0x5c: ("tload", 1, True), 0x5d: ("tstore", 2, False)}
REAL_CANCUN = False


class real_cancun:
    """context manager: evaluate under the real Cancun EVM"""
    def __enter__(self):
        global REAL_CANCUN
        self.old, REAL_CANCUN = REAL_CANCUN, True
    def __exit__(self, *a):
        global REAL_CANCUN
        REAL_CANCUN = self.old


def uses_cancun_extra(code):
    return any(op in CANCUN_EXTRA for _, op, _ in decode(code))


D27 = ("D27 (etk's Cancun table lacks BLOBHASH 0x49, BLOBBASEFEE 0x4a, TLOAD 0x5c, TSTORE 0x5d and treats them as halting "
       "invalid instructions; under the real Cancun EVM): ")


def decode(code):
    """linear sweep: list of (offset, opcode, imm bytes); a truncated trailing push is dropped"""
    out, off = [], 0
    while off < len(code):
        n = S.imm_len(code[off])
        if off + 1 + n > len(code):
            break
        out.append((off, code[off], code[off + 1:off + 1 + n]))
        off += 1 + n
    return out


class Underflow(Exception):
    pass


VOLATILE = {"mload", "sload", "balance", "extcodesize", "extcodehash", "returndatasize", "selfbalance", "msize", "gas",
            "keccak256", "create", "create2", "call", "callcode", "staticcall", "delegatecall"}


def step(op, imm, pc, stack, fresh=None):
    """one instruction on a concrete stack (top first).
    returns ('next', stack) | ('halt',) | ('jump', dest, stack) | ('jumpi', dest, cond, stack)
    fresh: optional callable giving the value of the next state-dependent read (an arbitrary oracle stream:
    every read may return a different value, also for equal arguments)"""
    def need(k):
        if len(stack) < k:
            raise Underflow()
    if op in OPNAME:
        name = OPNAME[op]; k = ARITY[name]; need(k)
        if fresh is not None and name in VOLATILE:
            return ("next", [fresh()] + stack[k:])
        return ("next", [apply(name, stack[:k])] + stack[k:])
    if op in POPONLY:
        k = POPONLY[op]; need(k)
        return ("next", stack[k:])
    if REAL_CANCUN and op in CANCUN_EXTRA:
        name, k, pushes = CANCUN_EXTRA[op]; need(k)
        if not pushes:
            return ("next", stack[k:])
        return ("next", [fresh() if fresh is not None else H(name, stack[:k])] + stack[k:])
    if op == 0x58: return ("next", [pc % 65536] + stack)
    if op == 0x5b: return ("next", stack)
    if op == 0x5f: return ("next", [0] + stack)
    if 0x60 <= op <= 0x7f: return ("next", [int.from_bytes(imm, "big")] + stack)
    if 0x80 <= op <= 0x8f:
        n = op - 0x7f; need(n)
        return ("next", [stack[n - 1]] + stack)
    if 0x90 <= op <= 0x9f:
        n = op - 0x8f; need(n + 1)
        s = list(stack); s[0], s[n] = s[n], s[0]
        return ("next", s)
    if op == 0x56:
        need(1); return ("jump", stack[0], stack[1:])
    if op == 0x57:
        need(2); return ("jumpi", stack[0], stack[1], stack[2:])
    if op in (0xf3, 0xfd):
        need(2); return ("halt",)
    if op == 0xff:
        need(1); return ("halt",)
    return ("halt",)      # stop, invalid, every undefined byte


def parse_expr(toks):
    """flat prefix list of names -> tree (name, [children]); returns (tree, rest)"""
    name = toks[0]; rest = toks[1:]
    if name[0] == "c" and name not in ARITY: return (("const", int(name[1:], 16)), rest)
    if name[0] == "v" and name[1:].isdigit(): return (("var", int(name[1:])), rest)
    if name.startswith("pc") and name[2:].isdigit(): return (("pc", int(name[2:])), rest)
    kids = []
    for _ in range(ARITY[name]):
        k, rest = parse_expr(rest)
        kids.append(k)
    return ((name, kids), rest)


def eval_tree(t, entry):
    if t[0] == "const": return t[1]
    if t[0] == "var": return entry[t[1] - 1]
    if t[0] == "pc": return t[1]
    return apply(t[0], [eval_tree(k, entry) for k in t[1]])


def eval_flat(s, entry):
    t, rest = parse_expr(s.split("."))
    assert not rest, "trailing symbols in expression"
    return eval_tree(t, entry)
