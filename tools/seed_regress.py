#!/usr/bin/env python3
"""seed_regress.py [<seed-id>...]
Mutation regression: every stored seeded change is applied to /repo in turn, the quick check of the property it breaks
is run (must exit 1 with a VIOLATION line), and the change is undone.  Results go to seeded/REGRESSION.json."""
import json, os, re, subprocess, sys, time

ids = sys.argv[1:] or sorted(d for d in os.listdir("/verif/seeded") if os.path.isfile(f"/verif/seeded/{d}/patch.diff"))
out = {}
assert subprocess.run("git -C /repo status --porcelain", shell=True, capture_output=True, text=True).stdout.strip() == "", "/repo is not clean"
for sid in ids:
    meta = json.load(open(f"/verif/seeded/{sid}/meta.json"))
    prop = meta["breaks"]
    r = subprocess.run(f"git -C /repo apply /verif/seeded/{sid}/patch.diff", shell=True, capture_output=True, text=True)
    if r.returncode != 0:
        out[sid] = {"error": "patch does not apply: " + r.stderr[:200]}
        continue
    try:
        t0 = time.time()
        c = subprocess.run(["./check", prop, "quick"], cwd="/verif", capture_output=True, text=True, timeout=7200)
        lines = [l for l in c.stdout.splitlines() if l.startswith("VIOLATION") or l.startswith(prop + " ")]
        out[sid] = {"property": prop, "rc": c.returncode, "with_input": c.returncode == 1 and not any("no-failing-input-found" in l for l in lines),
                    "lines": lines, "s": round(time.time() - t0, 1)}
    finally:
        subprocess.run("git -C /repo checkout -- .", shell=True, check=True)
    print(sid, out[sid].get("rc"), "input" if out[sid].get("with_input") else "", out[sid].get("lines", [""])[-1][-90:], flush=True)
path = "/verif/seeded/REGRESSION.json"
allres = json.load(open(path))["results"] if os.path.exists(path) and sys.argv[1:] else {}
allres.update(out)
json.dump({"when": time.strftime("%Y-%m-%d %H:%M"), "results": allres}, open(path, "w"), indent=1)
missed = [s for s, v in allres.items() if v.get("rc") != 1]
print("MISSED:", missed)
