"""C17 — opcode tables consistent and matching the EVM stack discipline."""
import subprocess
import common as C
import evmspec as S

PID = "C17"
LEAN_TARGETS = ["EtkVerif.Props.C17"]
FORKS = ("london", "shanghai", "cancun")
RULE = ("exhaustive: every row of the 3 tables (`ops row`), from_slice for 3 forks x 256 opcodes x slice "
        "lengths 1..40, push(0..40), upsize/new for all 256 codes; generated: push_for at all 2^(8k)-1/2^(8k)/+1 "
        "boundaries plus random u128, every mnemonic and near-miss mutations for FromStr. non-trivial = the "
        "reply is not the default for its command (row differs from an undefined byte; from_slice accepted or "
        "rejected for length; push_for width > 1; parse accepted)")
EXHAUSTIVE = {"quick": False, "thorough": False}
ASSUMPTIONS = ["EVM per-fork specification transcribed by hand twice (Lean Ops/Spec.lean, Python tools/evmspec.py)",
               "FromStr rejects every non-mnemonic string: sampled by near-miss mutations, not proved (the generated match is not visible through the API)"]


def table():
    out = subprocess.run([C.CORE_EXE, "dump-ops"], capture_output=True, text=True, check=True).stdout
    rows = {}
    for l in out.splitlines():
        f = l.split(" ")
        rows[(f[0], int(f[1]))] = f
    return rows


def cases(rng, tier):
    cs = []
    for fork in FORKS:
        for b in range(256):
            cs.append({"line": f"ops row {fork} {b}", "tags": ["row"]})
            cs.append({"line": f"ops upsize {fork} {b}", "tags": ["upsize"]})
            cs.append({"line": f"ops new {fork} {b}", "tags": ["new"]})
            for ln in range(1, 41):
                body = bytes([b] + [rng.randrange(256) for _ in range(ln - 1)])
                cs.append({"line": f"ops fromslice {fork} {body.hex()}", "tags": ["fromslice"]})
        for sz in range(0, 41):
            cs.append({"line": f"ops push {fork} {sz}", "tags": ["push"]})
    ns = set([0, 1, 2])
    for k in range(1, 17):
        for d in (-2, -1, 0, 1):
            v = (1 << (8 * k)) + d
            if 0 <= v < (1 << 128):
                ns.add(v)
    for k in range(0, 128):
        ns.add(1 << k)
        ns.add((1 << k) - 1 if k else 0)
    for _ in range(400 if tier == "quick" else 5000):
        ns.add(rng.getrandbits(rng.randrange(1, 129)))
    for n in sorted(ns):
        cs.append({"line": f"ops pushfor {rng.choice(FORKS)} {n}", "tags": ["pushfor"]})
    rows = table()
    for (fork, b), f in rows.items():
        m = f[2]
        muts = {m, m.upper(), m + "x", m[:-1], " " + m, m + " ", m.replace("_", ""), "x" + m, m[1:] if len(m) > 1 else "q"}
        if tier == "quick" and b % 4 != 0:
            muts = {m}
        for mm in muts:
            if mm:
                cs.append({"line": f"ops parse {fork} {C.txt(mm)}", "tags": ["parse"], "mnemonic": mm})
    return cs


def oracle(case, reply):
    """impl vs spec (independent of the Lean model)."""
    f = case["line"].split(" ")
    what, fork, arg = f[1], f[2], f[3]
    if what == "row":
        b = int(arg)
        r = reply.split(" ")
        if len(r) != 11:
            return f"row reply malformed: {reply}"
        code, mnem, extra, pops, pushes, ex, jmp, jt, size, back, parsed = r
        if int(code) != b or int(back) != b:
            return f"byte<->opcode round trip broken for {b}: {reply}"
        if int(parsed) != b:
            return f"mnemonic round trip broken for {b} ({mnem}): parsed back as {parsed}"
        if int(extra) != S.imm_len(b) or int(size) != 1 + int(extra):
            return f"size/immediate length wrong for {mnem}: extra={extra} size={size}"
        spec = S.of_fork(fork, b)
        undefined = mnem.startswith("invalid_")
        got = (int(pops), int(pushes), ex == "1", jmp == "1", jt == "1")
        if undefined:
            if got != (0, 0, True, False, False):
                return f"undefined byte {b:#x} must be a halting no-stack-effect instruction, got {got}"
        else:
            if spec is None:
                return f"{mnem} ({b:#x}) is defined in {fork} but the fork does not have it"
            if got != spec:
                return f"{fork} {mnem}: (pops,pushes,halt,jump,jumpdest)={got}, specification says {spec}"
        return None
    if what == "fromslice":
        bs = bytes.fromhex(arg)
        want_ok = len(bs) == 1 + S.imm_len(bs[0])
        if reply.startswith("ok") != want_ok:
            return f"from_slice({arg}) -> {reply}, expected {'ok' if want_ok else 'error'}"
        if want_ok and reply.split(" ")[1] != str(len(bs)):
            return f"from_slice({arg}) -> {reply}: wrong size"
        return None
    if what == "pushfor":
        n = int(arg)
        k = max(1, (n.bit_length() + 7) // 8)
        if reply != f"some {0x5f + k}":
            return f"push_for({n}) -> {reply}, expected push{k}"
        return None
    if what == "push":
        sz = int(arg)
        want = f"some {0x5f + sz}" if 1 <= sz <= 32 else "none"
        return None if reply == want else f"push({sz}) -> {reply}, expected {want}"
    if what == "parse":
        m = case.get("mnemonic", "")
        rows = oracle.rows = getattr(oracle, "rows", None) or table()
        codes = [b for (fk, b), r in rows.items() if fk == fork and r[2] == m]
        want = f"ok {codes[0]}" if codes else "err"
        return None if reply == want else f"parse({m!r}) in {fork} -> {reply}, expected {want}"
    return None


def nontrivial(case, reply):
    what = case["line"].split(" ")[1]
    if what == "row":
        return "invalid_" not in reply
    if what == "fromslice":
        return True
    if what == "pushfor":
        return reply != "some 96"
    if what == "parse":
        return reply.startswith("ok")
    return reply not in ("none", "panic")


def obligation_search():
    rows = table()
    for (fork, b), _ in sorted(rows.items()):
        case = {"line": f"ops row {fork} {b}"}
        reply = C.run_lines(C.CORE_EXE, [case["line"]])[0]
        why = oracle(case, reply)
        if why:
            return {"case": case, "impl": reply, "why": why}
    return None

MANIFEST = {
    "text": "Proof: per fork, a Boolean checker over the 256-row table regenerated from the compiled crate on every run is "
            "evaluated by the Lean kernel (decide +kernel) and lifted to the Prop-level statement (byte/mnemonic round trips, "
            "size = 1 + immediate length, from_slice accepts exactly slices of the instruction's size, metadata = EVM "
            "specification, defined only if the fork has it); push_for minimality is a theorem for every u128; FromStr — the one conversion with an infinite domain — accepts exactly the 256 table "
            "mnemonics and nothing else (C17_from_str: the string literals of the generated `match mnemonic {..}` read from this build's "
            "OUT_DIR equal the table's mnemonic column, its wildcard arm returns the error). The table is a "
            "finite object, so kernel evaluation over all of it is a proof, and regeneration makes it a proof about the code as it is now.",
    "note": "Trusted: Lean kernel; hand-transcribed EVM per-fork specification (Ops/Spec.lean); translator etk-h dump-ops + "
            "gen_optable.py (reads the tables through the public API of the compiled crate); Ops/Model.lean for from_slice/push/"
            "push_for/upsize, tied by an exhaustive correspondence run (3 x 256 x 40 slices); the FromStr arms are read with a regular "
            "expression from the generated Rust (a change of that code's form stops the translator, which is reported as a broken tie).",
    "technique": "Lean 4 kernel-evaluated table theorems over regenerated data + arithmetic proof + exhaustive differential run",
}
