"""C08 — operand expressions are evaluated as exact integer arithmetic."""
import common as C
import asmgen as G
from props.asm_common import family_cases, oracle

PID = "C08"
LEAN_TARGETS = ["EtkVerif.Props.C08"]
RULE = ("push32 / %push of random expression trees (depth <= 6) printed with random redundant blanks: literals of every radix "
        "(decimal, 0x, 0b, 0o; up to 300 bits; leading zeros), multi-digit negative literals, negative intermediates, all four "
        "operators in all sign combinations, division by zero, parentheses, labels; selector()/topic() on several signatures. "
        "The reference value comes from an independent recursive-descent parser for the stratified grammar and Python big "
        "integers (truncating division), Keccak from an independent Python implementation. non-trivial = the operand contains "
        "an operator")
EXHAUSTIVE = {"quick": False, "thorough": False}
ASSUMPTIONS = ["num-bigint arithmetic is modelled by Lean Int; sha3::Keccak256 by Asm/Keccak.lean (checked against vectors and the crate)"]


def cases(rng, tier):
    n = 400 if tier == "quick" else 6000
    return family_cases(rng, [("exprs", G.gen_exprs)], n, faults=0.0) + family_cases(rng, [("exprs-wide", G.gen_exprs_wide)], n // 4, faults=0.0)


def nontrivial(case, reply):
    return any(op in case.get("src", "") for op in "+*/") and reply.startswith(("ok", "err"))


MANIFEST = {
    "text": "Proof: literal conversion yields the positional value for every digit string and radix (and exactly the malformed "
            "strings are refused); the transcription of pest's PrecClimber::climb_rec equals the stratified grammar E -> T((+|-)T)*, "
            "T -> F((*|/)F)* on every token list (precedence and left associativity for all lengths); evaluation of + - * / is "
            "unbounded Int arithmetic with division truncating toward zero; TEXT (C08_text): the text of an operand — any sequence of terms "
            "(literals in four radixes, negative decimals, labels, parenthesised sequences nested to any depth) and operators with blanks "
            "anywhere the grammar allows — goes through the full pest interpreter over the regenerated grammar and the walk to exactly the "
            "expression the climber builds, i.e. the stratified-grammar reading. Keccak is an executable Lean definition; two published "
            "vectors are evaluated in the kernel (C08_keccak_vectors); it is not proved against a standard.",
    "note": "Trusted: Lean kernel; Asm/Parse.lean (expression::parse, parse_radix_str, negative arm), Asm/Eval.lean tied to etk-asm by "
            "the differential run through push32 <expr>; the pest interpreter (Asm/Pest.lean) over the regenerated grammar supplies "
            "the token structure; num-bigint and sha3 are modelled, not verified.",
    "technique": "Lean 4 proofs (digit induction; climber = stratified grammar; Int arithmetic; operand text through the pest interpreter model) + differential correspondence + independent big-integer oracle",
}
