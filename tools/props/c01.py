"""C01 — label values equal the real byte offsets of the labelled instructions."""
import common as C
import asmgen as G
import evmref as R
from props.asm_common import oracle as spec_oracle

PID = "C01"
LEAN_TARGETS = ["EtkVerif.Props.C01"]
RULE = ("1-5 labels each followed by a sentinel jumpdest, 1-6 fixed-width and %push operands over label expressions (forward, "
        "backward, `label +- k`, `K - label`), fillers that put offsets at 250..256 and, in every tenth case, at 65529..65536 (one raw blob); every 25th case has 1-3 %push whose label crosses 65536 only after widening, so a push grows twice in separate rounds; plus n/5 cascades (2-4 %push whose widenings trigger each other over successive rounds in any program order, a referenced label behind each) and self-shifting pushes (`%push(lbl + K)` growing 1->2->3); every label "
        "probed at the end by `push3 label`; checked three ways: bytes = reference semantics (least fixed point layout in "
        "Python), bytes = model, and independently of both: the output is decoded and out[probe immediate] must be the "
        "sentinel 0x5b. non-trivial = some %push grew beyond one byte or a label value >= 256")
EXHAUSTIVE = {"quick": False, "thorough": False}
ASSUMPTIONS = ["labels inside macros and includes are covered by C10 / C12 streams"]


def with_probes(rng, prog):
    labels = [s[1] for s in prog if s[0] == "label"]
    return prog + [("push", 3, G.X(rng, [l])) for l in labels], labels


def cases(rng, tier):
    cs = []
    n = 250 if tier == "quick" else 4000
    for i in range(n):
        big = (i % 10 == 7) if tier == "quick" else (i % 20 == 7)   # fillers as one raw blob: a push can grow twice
        twice = i % 25 == 3
        prog, labels = with_probes(rng, G.gen_twice(rng) if twice else G.gen_shrink(rng) if (i % 5 == 4 and not big) else G.gen_layout(rng, big=big))
        cs.append(G.finish(prog, rng, ["twice" if twice else "layout-big" if big else "layout"], extra={"probes": len(labels)}))
    # widenings that cascade over several rounds in any order of the pushes, with referenced labels between the pushes;
    # a push that shifts its own label and grows twice
    for i in range(n // 5):
        kind = "selfshift" if i % 4 == 3 else "cascade"
        prog, labels = with_probes(rng, G.gen_selfshift(rng) if kind == "selfshift" else G.gen_cascade(rng))
        cs.append(G.finish(prog, rng, [kind], extra={"probes": len(labels)}))
    for i in range(n // 10):
        prog, labels = with_probes(rng, G.gen_macro_arg_layout(rng))
        cs.append(G.finish(prog, rng, ["macro-arg-layout"], extra={"probes": len(labels)}))
    return cs


def oracle(case, reply):
    why = spec_oracle(case, reply)
    if why:
        return why
    if reply.startswith("ok ") and case.get("probes"):
        h = reply[3:]
        out = bytes.fromhex(h) if h != "-" else b""
        k = case["probes"]
        tail = out[len(out) - 4 * k:]
        for j in range(k):
            op, imm = tail[4 * j], tail[4 * j + 1:4 * j + 4]
            if op != 0x62:
                return "probe push3 not found at the end of the output"
            v = int.from_bytes(imm, "big")
            if v >= len(out) or out[v] != 0x5b:
                return f"a label evaluates to {v}, but the byte at that offset is {out[v] if v < len(out) else None!r}, not the jumpdest that follows the label"
    return None


def nontrivial(case, reply):
    info = case.get("info") or {}
    return any(w > 1 for w in info.get("widths", [])) or any(v >= 256 for v in info.get("labels", {}).values())


MANIFEST = {
    "text": "Proof: for every macro-free item list that assembles, under the final layout every label's value (what operands "
            "evaluate it to) equals the number of bytes emitted before it, so out[value] is the instruction after the label "
            "(0x5b when it is a jumpdest) — for any number/order of labels and pushes and whatever widths the variable-sized "
            "pushes end up with. Exactness is structural (positions are prefix sums of emitted sizes under the allotted widths and "
            "emission writes each push at exactly its allotted width); the width loop provably ends in a stable state. T-asm "
            "(C13) ties the item-level semantics to the implementation model of Assembler::push / backpatch / emit.",
    "note": "Trusted: Lean kernel; Asm/Assemble.lean (model of asm.rs as repaired) tied to etk-asm by the differential run on layout-"
            "sensitive programs and by the independent probe/sentinel decoding; scopes (includes) apply the theorem per scope; "
            "parsing (pest interpreter over the regenerated grammar + Asm/Parse.lean) is tied by the same run; about the parser model, C14_parse (no panic site for any text) and the text-level theorems of C02 / C03 are proved; C01_text restates the property for macro-free program TEXT (any layout, any operand expression of the C08 family).",
    "technique": "Lean 4 proof (prefix-sum layout invariant, stable width loop, refinement to a specification) + differential correspondence + probe/sentinel oracle",
}
