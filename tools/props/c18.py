"""C18 — includes and imports cannot read outside the project root."""
import common as C
import fsgen as F

PID = "C18"
LEAN_TARGETS = ["EtkVerif.Props.C18"]
RULE = ("a fixed tree (project root with subdirectories, files outside it carrying a canary instruction, symlinked files and "
        "directories pointing inside and outside, an absolute symlink, a self-referential symlink, a root reached through a "
        "symlink) and 1-3 random directives per case over 25 targets: relative, `..`-laden, absolute (inside and outside), "
        "through links, missing, a directory. Outcome class AND the set of files opened for reading (observed with strace; every run, also failing ones) compared with the traced model on its concrete file system; the oracle "
        "re-materialises the tree and resolves targets with the operating system's realpath. non-trivial = a target that "
        "exists outside the root")
EXHAUSTIVE = {"quick": False, "thorough": False}
ASSUMPTIONS = ["std::fs::canonicalize returns the fully resolved location; the file read is the file checked (no concurrent modification)"]


def cases(rng, tier):
    cs = []
    n = 200 if tier == "quick" else 3000
    for _ in range(n):
        top, entries, lines = F.gen_contain(rng)
        jentries = [[e[0], e[1], e[2].hex() if isinstance(e[2], bytes) else e[2]] for e in entries]
        line = F.line(top, entries)
        # the model runs the TRACED ingestion and reports the files it read (also on failing runs)
        cs.append({"line": line, "model_line": "asmfsr" + line[len("asmfs"):], "tags": ["contain"], "fs": [top, jentries, lines],
                   "src": "\n".join(lines)})
    return cs


def impl_runner(cases):
    """the real assembler under `strace -e openat`: besides its reply, every case gets the list of files the process
    opened for reading inside the case's materialised tree (`observed`), in order"""
    import os, re, subprocess, tempfile
    log = tempfile.NamedTemporaryFile(prefix="etk-strace-", suffix=".log", delete=False).name
    lines = [c["line"] for c in cases]
    try:
        try:
            r = subprocess.run(["strace", "-f", "-qq", "-e", "trace=openat,open,openat2", "-o", log, C.CORE_EXE], input="\n".join(lines) + "\n",
                               capture_output=True, text=True, timeout=1800)
        except (OSError, subprocess.TimeoutExpired):
            # no strace / ptrace not permitted: no observations, outcomes are still compared
            for c in cases:
                c["observed"] = None
            return C.run_lines(C.CORE_EXE, lines)
        outs = r.stdout.split("\n")
        if outs and outs[-1] == "":
            outs.pop()
        if r.returncode != 0 or len(outs) != len(lines):
            # a crash of the harness: fall back to the plain runner (no observations; the oracle still sees the reply)
            for c in cases:
                c["observed"] = None
            return C.run_lines(C.CORE_EXE, lines)
        per, order = {}, []
        pat = re.compile(r'open(?:at)?\((?:AT_FDCWD, )?"((?:[^"\\]|\\.)*)", ([A-Z_|0-9]+)(?:, [0-7]+)?\)\s+= (-?\d+)')
        for l in open(log, errors="replace"):
            m = pat.search(l)
            if not m:
                continue
            path, flags, ret = m.group(1), m.group(2), int(m.group(3))
            k = re.match(r"(/.*?/etk-h-fs-\d+-\d+)(/.*)?$", path)
            if not k:
                continue
            base = k.group(1)
            if base not in per:
                per[base] = []; order.append(base)
            if ret < 0 or "O_DIRECTORY" in flags or "O_WRONLY" in flags or "O_RDWR" in flags or "O_CREAT" in flags or not k.group(2):
                continue
            per[base].append(k.group(2).lstrip("/"))
        if len(order) != len(cases):
            for c in cases:
                c["observed"] = None
            return outs
        for c, base in zip(cases, order):
            c["observed"] = per[base]
        return outs
    finally:
        try:
            os.unlink(log)
        except OSError:
            pass


def extra_coverage(cases, impl):
    n = sum(1 for c in cases if c.get("observed") is not None)
    if n == 0:
        C.log("C18: NOTE — no file opens were observed (strace unavailable or ptrace denied): the observed-opens tie did not run; "
              "outcomes and canary bytes were still compared")
    return {"cases_with_observed_file_opens": n}


def tie_check(case, impl, model):
    """same outcome, and the real code read exactly the files the traced model says it read"""
    m = model.rsplit(" reads=", 1)
    if len(m) != 2:
        return f"model reply without a read list: {model[:80]}"
    if impl != m[0]:
        return f"outcome differs: implementation `{impl[:80]}`, model `{m[0][:80]}`"
    obs = case.get("observed")
    if obs is None:
        return None
    got = F.canonical_reads(case, obs)
    if got is None:
        return None
    want = sorted(x for x in m[1].split("|") if x and x != "-")
    if sorted(got) != want:
        return f"files read differ: the real code opened {sorted(got)}, the traced model read {want}"
    return None


def prepare(cases):
    for c in cases:
        # entries are tuples with bytes: keep them out of JSON replay files
        pass


def oracle(case, reply):
    why = F.contain_oracle(case, reply)
    if why:
        return why
    obs = case.get("observed")
    if obs:
        # the property itself, for EVERY run (successful or not): every file opened for reading lies inside the root
        bad = F.reads_outside(case, obs)
        if bad:
            return f"the assembler opened {bad!r}, which resolves outside the project root (reply: {reply[:60]})"
    return None


def nontrivial(case, reply):
    return "outside" in case.get("src", "") or "_out" in case.get("src", "")

MANIFEST = {
    "text": "Proof over an ABSTRACT file system (any canonicalize, any contents): Root::check succeeds exactly for paths whose resolved "
            "location has the canonical root as a component-wise prefix, reports DirectoryTraversal exactly when the target exists "
            "outside, an I/O error when it does not resolve; trace invariant by induction over preprocess / resolve_and_ingest at any "
            "nesting depth: every file read other than the top-level source lies inside the root and is immediately preceded by the "
            "successful check of a path resolving to it — for EVERY run, successful or failing (C18_all_runs_*: traced variants of the "
            "ingestion functions that return the partial trace of failing runs too, proved to agree with the original ones). NON-INTERFERENCE "
            "(C18_noninterference): two file systems with the same directory structure and the same text in the top-level file and under its root give "
            "the same bytes-or-error and the same trace, whatever files outside the root contain.",
    "note": "Partial by nature: that std::fs::canonicalize returns the fully resolved location and that the file read is the file checked "
            "(no concurrent modification) are assumptions about the OS, represented by the FS parameter. Trusted: Lean kernel; "
            "Asm/Ingest.lean tied to ingest.rs by the differential run on trees with symlinked files/directories, `..`, absolute paths "
            "and canary files; the oracle re-materialises the tree and uses the OS's own realpath; the real assembler runs under "
            "`strace -e openat`, and the files it opened for reading (every run, also the failing ones) must lie inside the root and must be "
            "exactly the files the traced model reads.",
    "technique": "Lean 4 trace-invariant proof over an abstract file system (all runs) + differential correspondence on materialised trees with canaries, observed opens (strace) compared with the traced model + realpath oracle",
}
