"""C18 — includes and imports cannot read outside the project root."""
import common as C
import fsgen as F

PID = "C18"
LEAN_TARGETS = ["EtkVerif.Props.C18"]
RULE = ("a fixed tree (project root with subdirectories, files outside it carrying a canary instruction, symlinked files and "
        "directories pointing inside and outside, an absolute symlink, a self-referential symlink, a root reached through a "
        "symlink) and 1-3 random directives per case over 25 targets: relative, `..`-laden, absolute (inside and outside), "
        "through links, missing, a directory. Outcome class compared with the model on its concrete file system; the oracle "
        "re-materialises the tree and resolves targets with the operating system's realpath. non-trivial = a target that "
        "exists outside the root")
EXHAUSTIVE = {"quick": False, "thorough": False}
ASSUMPTIONS = ["std::fs::canonicalize returns the fully resolved location; the file read is the file checked (no concurrent modification)"]


def cases(rng, tier):
    cs = []
    n = 200 if tier == "quick" else 3000
    for _ in range(n):
        top, entries, lines = F.gen_contain(rng)
        cs.append({"line": F.line(top, entries), "tags": ["contain"], "fs": [top, entries, lines], "src": "\n".join(lines)})
    return cs


def prepare(cases):
    for c in cases:
        # entries are tuples with bytes: keep them out of JSON replay files
        pass


oracle = F.contain_oracle


def nontrivial(case, reply):
    return "outside" in case.get("src", "") or "_out" in case.get("src", "")
