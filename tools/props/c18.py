"""C18 — includes and imports cannot read outside the project root."""
import common as C
import fsgen as F

PID = "C18"
LEAN_TARGETS = ["EtkVerif.Props.C18"]
RULE = ("a fixed tree (project root with subdirectories, files outside it carrying a canary instruction, symlinked files and "
        "directories pointing inside and outside, an absolute symlink, a self-referential symlink, a root reached through a "
        "symlink) and 1-3 random directives per case over 25 targets: relative, `..`-laden, absolute (inside and outside), "
        "through links, missing, a directory. Outcome class compared with the model on its concrete file system; the oracle "
        "re-materialises the tree and resolves targets with the operating system's realpath. non-trivial = a target that "
        "exists outside the root")
EXHAUSTIVE = {"quick": False, "thorough": False}
ASSUMPTIONS = ["std::fs::canonicalize returns the fully resolved location; the file read is the file checked (no concurrent modification)"]


def cases(rng, tier):
    cs = []
    n = 200 if tier == "quick" else 3000
    for _ in range(n):
        top, entries, lines = F.gen_contain(rng)
        jentries = [[e[0], e[1], e[2].hex() if isinstance(e[2], bytes) else e[2]] for e in entries]
        cs.append({"line": F.line(top, entries), "tags": ["contain"], "fs": [top, jentries, lines], "src": "\n".join(lines)})
    return cs


def prepare(cases):
    for c in cases:
        # entries are tuples with bytes: keep them out of JSON replay files
        pass


oracle = F.contain_oracle


def nontrivial(case, reply):
    return "outside" in case.get("src", "") or "_out" in case.get("src", "")

MANIFEST = {
    "text": "Proof over an ABSTRACT file system (any canonicalize, any contents): Root::check succeeds exactly for paths whose resolved "
            "location has the canonical root as a component-wise prefix, reports DirectoryTraversal exactly when the target exists "
            "outside, an I/O error when it does not resolve; trace invariant by induction over preprocess / resolve_and_ingest at any "
            "nesting depth: every file read other than the top-level source lies inside the root and is immediately preceded by the "
            "successful check of a path resolving to it; an error yields no output bytes.",
    "note": "Partial by nature: that std::fs::canonicalize returns the fully resolved location and that the file read is the file checked "
            "(no concurrent modification) are assumptions about the OS, represented by the FS parameter. Trusted: Lean kernel; "
            "Asm/Ingest.lean tied to ingest.rs by the differential run on trees with symlinked files/directories, `..`, absolute paths "
            "and canary files; the oracle re-materialises the tree and uses the OS's own realpath.",
    "technique": "Lean 4 trace-invariant proof over an abstract file system + differential correspondence on materialised trees with canaries + realpath oracle",
}
