"""C15 — the analysis pipeline is total on arbitrary bytecode."""
import common as C
import cfgcommon as G
import evmref as R

PID = "C15"
NEEDS = ("analyze",)
LEAN_TARGETS = ["EtkVerif.Props.C15"]
PANIC_FILES = ["etk-asm/src/disasm.rs", "etk-dasm/src/blocks/annotated.rs", "etk-dasm/src/blocks/basic.rs", "etk-dasm/src/sym.rs",
               "etk-analyze/src/cfg.rs", "etk-analyze/src/sym.rs", "etk-analyze/src/blocks/annotated.rs"]
RULE = ("byte strings through the whole real pipeline (Disassembler -> Separator -> annotate -> ControlFlowGraph::new -> "
        "refine_shallow -> render): every opcode byte in first / middle / last block position and feeding a jump target and a "
        "branch condition; uniform random byte strings; structured programs; truncated pushes. Each request runs under "
        "catch_unwind in a child process with a wall-clock limit. non-trivial = more than one block or a jump expression")
EXHAUSTIVE = {"quick": False, "thorough": False}
ASSUMPTIONS = ["time, memory and machine stack depth are outside the model (D21: expression size can double per dup); "
               "a request that exceeds the wall-clock limit is counted as rejected unless it is a listed finding",
               "blocks need fewer than 65536 input variables (D20 otherwise)"]
canon = G.canon


def cases(rng, tier):
    cs = []
    for b in range(256):
        fill = lambda: bytes([0x01]) if b != 0x0a else b"\x01"
        variants = [bytes([b]), bytes([0x58, b, 0x58]), bytes([0x58, 0x58, b]), bytes([b]) + b"\x56", bytes([b]) + b"\x60\x01\x57\x00", b"\x5b" + bytes([b]) + b"\x5b\x00"]
        for v in variants:
            n = 0
            cs.append({"line": f"cfg {C.hexs(v + bytes(R.S.imm_len(b)) if False else fix(v))}", "exe": "analyze", "tags": ["opcode-position"]})
    n = 150 if tier == "quick" else 3000
    for _ in range(n):
        ln = rng.choice([1, 2, 3, 5, 9, 17, 40])
        bs = bytes(rng.randrange(256) for _ in range(ln))
        bs = bytes(x if x not in (0x0a,) else 0x02 for x in bs)
        cs.append({"line": f"cfg {C.hexs(bs)}", "exe": "analyze", "tags": ["random-bytes"]})
    for _ in range(n // 2):
        cs.append({"line": f"cfg {C.hexs(G.gen_program(rng))}", "exe": "analyze", "tags": ["structured"]})
    # every arithmetic opcode computing a jump target / branch condition from boundary CONSTANTS (0, 1, 31, 32, 33,
    # 255, 256, 2^255, 2^256-1 ...): constant operands take different paths through the solver translation
    import itertools
    consts = [0, 1, 2, 31, 32, 33, 255, 256, (1 << 255), R.M - 1]
    for op in G.ARITH:
        k = R.S.of_fork("cancun", op)[0]
        combos = list(itertools.product(consts, repeat=k)) if k <= 2 else [tuple(rng.choice(consts) for _ in range(k)) for _ in range(30)]
        if tier == "quick" and len(combos) > 40:
            combos = [c for c in combos if rng.random() < 40 / len(combos)] + [(32,) * k, (31,) * k, (5, 32)[:k], (32, 5)[:k]]
        for vals in combos:
            if op == 0x0a and max(vals) > 300:
                continue
            code = b"".join(G.push(v) for v in reversed(vals)) + bytes([op])
            code = b"\x5b" + code + rng.choice([b"\x56", b"\x60\x01\x57"]) + b"\x5b\x00"
            cs.append({"line": f"cfg {C.hexs(code)}", "exe": "analyze", "tags": ["const-operand-jump"]})
    return cs


def fix(v):
    """complete the immediates of push opcodes so that every byte of the variant is an opcode position"""
    out = bytearray()
    for x in v:
        out.append(x)
        out += bytes(R.S.imm_len(x))
    return bytes(out)


def oracle(case, reply):
    if reply in ("panic", "abort"):
        return f"the analysis pipeline crashed ({reply}) on bytecode {case['line'].split(' ')[1][:80]}"
    if reply == "timeout" and case.get("time_observable"):
        return f"the analysis pipeline did not finish within the time limit on bytecode {case['line'].split(' ')[1][:80]}"
    return None


def nontrivial(case, reply):
    return reply.count("Offset") > 2


MANIFEST = {
    "text": "Proof: no panic outcome of the pipeline's models is reachable — disassembler (C04) and separator (C16) invariants; "
            "annotator: the regenerated Cancun table's pops/pushes/exit/jump flags agree with what annotate_one does for all 256 "
            "opcodes (kernel evaluation over regenerated data) hence every separator-shaped block is accepted (induction over "
            "the block) while the u16 variable counter cannot overflow — exactly: a block is accepted IFF it reaches at most 65535 entry-stack "
            "slots (C15_annotate_exact / C15_annotate_refused; beyond that the counter overflows, finding D20); ControlFlowGraph::new and refine_shallow never reach "
            "their assert/unreachable!/unwrap sites for any solver; every symbol has a translation.",
    "note": "Trusted: Lean kernel; the models' panic sites are a transcription of the asserts/unwraps of annotated.rs, basic.rs, "
            "cfg.rs, sym.rs (inventory: tools/panic_ledger.txt, recomputed by etk-h dump-sites on every run), tied by the differential run (outcome class and initial graph) through "
            "the real pipeline in a child process. Partial by nature: wall-clock time, memory (D21 exponential expression growth) "
            "and stack depth are not modelled; blocks needing >= 65536 inputs overflow the u16 counter (D20, known finding).",
    "technique": "Lean 4 panic-freedom proof over models with explicit panic outcomes + kernel-evaluated table check + differential fuzzing in child processes",
}
