"""C11 — expression macros denote their body with arguments substituted."""
import common as C
import asmgen as G
from props.asm_common import family_cases, oracle

PID = "C11"
LEAN_TARGETS = ["EtkVerif.Props.C11"]
RULE = ("acyclic expression-macro definition DAGs (1-5 macros, 0-2 parameters drawn from a shared pool of names so that "
        "different macros reuse parameter names), bodies that call earlier macros forwarding their parameters, invocations with "
        "literal / label / nested-invocation arguments, extra arguments, definitions before or after use; the reference is "
        "substitution-based evaluation in Python. plus n/8 three-deep frame programs (an argument that is itself an invocation forwarding the caller's parameter to a callee with an equally named parameter; bodies reading a variable only an enclosing invocation binds: must be UndeclaredVariableMacro). plus injected faults (unknown macro, missing argument, self-recursion). "
        "non-trivial = at least one macro calls another")
EXHAUSTIVE = {"quick": False, "thorough": False}
ASSUMPTIONS = []


def cases(rng, tier):
    n = 400 if tier == "quick" else 6000
    cs = family_cases(rng, [("emacros", G.gen_emacros), ("forwarding", G.gen_forwarding)], n, faults=0.25)
    # frames three deep: an argument that is itself an invocation forwarding the caller's parameter; bodies reading a
    # variable that only an enclosing invocation binds (must be an error, not the caller's value)
    cs += family_cases(rng, [("nested-frames", G.gen_nested_frames)], n // 8, faults=0.0)
    # argument nesting 200-300 deep (not macro recursion: must evaluate), alone and below a long forwarding chain
    cs += family_cases(rng, [("deep-args", G.gen_deep_args)], 6 if tier == "quick" else 40, faults=0.0)
    return cs


def nontrivial(case, reply):
    return case.get("src", "").count("%def") >= 2


MANIFEST = {
    "text": "Proof: an invocation f(a1..an) evaluates to f's body in a frame binding exactly p_i to the call-site value of a_i "
            "(a successful binding binds every parameter; fewer arguments than parameters is the error naming the first parameter without argument: C11_missing_argument, after fix 841db2a), and evaluating in a frame is evaluating the body with every bound "
            "$p replaced by its value in an EMPTY frame — so enclosing frames, equal parameter names in other macros and nesting "
            "depth cannot interfere (exact equality of results, all depths, all definition sets); more fuel never changes a result. TEXT "
            "(C11_text): `%def name(params)` / body / `%end` with any blanks and line ends parses to the definition node with exactly the "
            "declared name, the parameters in order and the body's expression (calls, $variables, literals, labels, parentheses).",
    "note": "Trusted: Lean kernel; Asm/Eval.lean (eval_with_context Macro / Variable arms as repaired: arguments evaluated at the "
            "call site) tied by the differential run through push32 f(...); the pre-declaration of macros (definitions after use) "
            "is part of the assembler model (declareMacros).",
    "technique": "Lean 4 proof of substitution semantics (joint induction over eval/evalArgs) + differential correspondence + substitution-based oracle",
}
