"""C02 — output is exactly the encoded instruction stream of the source."""
import common as C
import asmgen as G
import evmref as R
from props.asm_common import family_cases, oracle as spec_oracle

PID = "C02"
LEAN_TARGETS = ["EtkVerif.Props.C02"]
RULE = ("programs over the full mnemonic set (every zero-operand opcode of the regenerated Cancun table, push0, push1..push32 with "
        "operands 0, 1, 256^N-1, 256^(N-1), random, written in random radixes with leading zeros, %push constants), interleaved "
        "labels; every program rendered in a random legal layout (blank lines, leading blanks, trailing and full-line comments, `;` "
        "separators); every case assembled twice by the harness in fresh assemblers (repeat-run clause); 150 (thorough 2000) DECORATED "
        "instruction programs of the layout theorem's family, given to the model as structure: it renders them with Layout.render, checks "
        "Layout.WF and that its rendering is byte-for-byte the text the implementation assembled; 150 (thorough 3000) members of the text "
        "family of ProgText.parse_prog (labels, pushN <expr>, %push(<expr>), instructions, any layout) generated and rendered by the model "
        "itself (`proggen`) and assembled by the real code. The output is decoded by an "
        "independent linear sweep and aligned one-to-one with the reference item list. non-trivial = at least 5 instructions")
EXHAUSTIVE = {"quick": False, "thorough": False}
ASSUMPTIONS = []


# ---- the family of the layout theorem (C02_layout): decorated instruction programs, given to the model as STRUCTURE
# (it renders with Layout.render, checks Layout.WF and that its rendering is the text the implementation got)

def _hx(b):
    return b.hex() if b else "-"


COMMENT_BODIES = [b"", b" c", b" remember; gas", b";", b"; stop", b";pc;pc", b" a: ; jumpdest", b" %push(1); pc", b' "q" ; %include("x")',
                  b" # nested # ; gas", b" 0x", b"\t;\tjumpdest", " caf\u00e9 ; \u2603".encode()]


def _blanks(rng, p=0.4):
    return bytes(rng.choice([32, 9]) for _ in range(rng.randrange(1, 4))) if rng.random() < p else b""


def _comment(rng, p=0.3):
    return rng.choice(COMMENT_BODIES) if rng.random() < p else None


def _cf(c):
    return "n" if c is None else "c" + _hx(c)


def _ct(c):
    return b"" if c is None else b"#" + c


def _blank_line(rng):
    b, c, e = _blanks(rng, 0.5), _comment(rng, 0.5), rng.random() < 0.2
    return f"{_hx(b)}/{_cf(c)}/{int(e)}", b + _ct(c) + (b"\r\n" if e else b"\n")


def gen_decorated(rng, big=False):
    import evmspec as S
    ops = [b for b in range(256) if S.of_fork("cancun", b) is not None and b not in R.ETK_UNDEFINED]
    n = rng.choice([0, 1, 2, 3, 5, 8, 20]) if not big else rng.choice([100, 400])
    head = [_blank_line(rng) for _ in range(rng.choice([0, 0, 1, 2]))]
    items, text, out = [], b"".join(t for _, t in head), b""
    for j in range(n):
        op = rng.choice(ops)
        k = S.imm_len(op)
        imm = bytes(rng.choice([0, 0, 255, rng.randrange(256)]) for _ in range(k))
        stmt = (MN[op] + (" 0x" + imm.hex() if k else "")).encode()
        lead = _blanks(rng, 0.3)
        last = j == n - 1
        r = rng.random()
        if last and r < 0.3:
            t, c = _blanks(rng), _comment(rng)
            term, tt = f"o:{_hx(t)}:{_cf(c)}", t + _ct(c)
        elif r < 0.55 or (r < 0.7 and last):
            b, a = _blanks(rng), _blanks(rng)
            term, tt = f"s:{_hx(b)}:{_hx(a)}", b + b";" + a
        else:
            t, c, e = _blanks(rng), _comment(rng), rng.random() < 0.2
            more = [_blank_line(rng) for _ in range(rng.choice([0, 0, 0, 1, 2]))]
            term = f"l:{_hx(t)}:{_cf(c)}:{int(e)}:{';'.join(m for m, _ in more) if more else '='}"
            tt = t + _ct(c) + (b"\r\n" if e else b"\n") + b"".join(x for _, x in more)
        items.append(f"{_hx(lead)}|{op}.{_hx(imm)}|{term}")
        text += lead + stmt + tt
        out += bytes([op]) + imm
    hs = ",".join(h for h, _ in head) if head else "="
    its = ",".join(items) if items else "="
    return {"line": "asm " + _hx(text), "model_line": f"lay {hs} {its} {_hx(text)}", "tags": ["decorated"], "src": text.decode("utf-8", "replace"),
            "want_ok": out.hex() if out else "-"}


MN = {}


def prepare(cases):
    if not MN:
        # mnemonics as the real crate prints them (the regenerated table)
        out = C.run([C.CORE_EXE, "dump-ops"]).stdout
        for l in out.splitlines():
            f = l.split(" ")
            if f[0] == "cancun":
                MN[int(f[1])] = f[2]


def cases(rng, tier):
    n = 300 if tier == "quick" else 5000
    cs = family_cases(rng, [("ops", G.gen_ops), ("macros", G.gen_macros)], n // 2, faults=0.0)
    prepare([])
    cs += [gen_decorated(rng, big=(tier == "thorough" and i % 50 == 0)) for i in range(150 if tier == "quick" else 2000)]
    cs += progtext_cases(rng, 150 if tier == "quick" else 3000)
    # hundreds of expansions of one label-bearing macro in one scope: the mangled names must all differ
    cs += family_cases(rng, [("many-expansions", G.gen_many_expansions)], 2 if tier == "quick" else 12, faults=0.0)
    return cs


def progtext_cases(rng, n):
    """the text family of ProgText.parse_prog (labels, pushN <expr>, %push(<expr>), instructions, any layout)"""
    from props.asm_common import modelgen_cases
    return modelgen_cases(rng, "proggen", n, "progtext")


def oracle(case, reply):
    why = spec_oracle(case, reply)
    if why:
        return why
    if reply.startswith("nondet"):
        return "two runs over the same source gave different results"
    return None


def nontrivial(case, reply):
    return reply.startswith("ok ") and len(reply) > 16


MANIFEST = {
    "text": "Proof: a successful emission is the concatenation, in item order, of each item's encoding (labels and, upstream, definitions "
            "contribute nothing; nothing reordered, dropped or duplicated); pushN contributes its opcode byte and exactly N big-endian "
            "bytes of the in-range value, left-padded with zeros; bytesBE is value-preserving and minimal; repeated runs give the same bytes: "
            "the output is independent of the source of the random label suffixes as long as it is fresh for the program "
            "(C02_suffix_independent; any injective source is fresh for programs without underscores in label names, "
            "C02_fresh_satisfiable); LAYOUT (C02_layout, C02_layout_bytes): for programs over the full mnemonic set and every push width "
            "with hex operands, any legal decoration — blanks, `#` comments with any body (also `;`, `%`, `:`, quotes, statements), blank "
            "and comment-only lines, LF/CRLF, `;` separators, an unterminated last statement — parses (full pest interpreter over the "
            "regenerated grammar) to the same nodes and assembles to exactly the concatenation of the instructions' bytes; TEXT TO BYTES (C02_text): "
            "for every macro-free program text (instructions, pushN <expr>, %push(<expr>), label definitions, any layout, operand expressions "
            "with literals in four radixes, negatives, labels, nested parentheses) preprocess yields one raw op per statement and assemble "
            "succeeds exactly when Spec.assembleItems does on the statements' items, with the same bytes. For programs with macros the text -> nodes -> ops "
            "handed to assemble step is proved for the whole language (C10_text, C10_text_preprocess; one level of %import / %include: C12_import_is_paste); "
            "the closed form bytes(text) = assembleItems(statements) is for macro-free programs.",
    "note": "Trusted: Lean kernel; Asm/Assemble.lean tied by the differential run over the whole mnemonic set and all push widths; the "
            "mnemonic -> opcode mapping is the regenerated table (C17) and grammar (C03 table theorems); parsing is the generic pest "
            "interpreter over the regenerated grammar, tied by the same run.",
    "technique": "Lean 4 proof (emission = concatenation of encodings; suffix independence by a partial bijection on label names; layout insensitivity over the pest interpreter model) + differential correspondence over all mnemonics/layouts + independent decoder",
}
