"""C02 — output is exactly the encoded instruction stream of the source."""
import common as C
import asmgen as G
import evmref as R
from props.asm_common import family_cases, oracle as spec_oracle

PID = "C02"
LEAN_TARGETS = ["EtkVerif.Props.C02"]
RULE = ("programs over the full mnemonic set (every zero-operand opcode of the regenerated Cancun table, push0, push1..push32 with "
        "operands 0, 1, 256^N-1, 256^(N-1), random, written in random radixes with leading zeros, %push constants), interleaved "
        "labels; every program rendered in a random legal layout (blank lines, leading blanks, trailing and full-line comments, `;` "
        "separators); every case assembled twice by the harness in fresh assemblers (repeat-run clause). The output is decoded by an "
        "independent linear sweep and aligned one-to-one with the reference item list. non-trivial = at least 5 instructions")
EXHAUSTIVE = {"quick": False, "thorough": False}
ASSUMPTIONS = []


def cases(rng, tier):
    n = 300 if tier == "quick" else 5000
    cs = family_cases(rng, [("ops", G.gen_ops), ("macros", G.gen_macros)], n // 2, faults=0.0)
    return cs


def oracle(case, reply):
    why = spec_oracle(case, reply)
    if why:
        return why
    if reply.startswith("nondet"):
        return "two runs over the same source gave different results"
    return None


def nontrivial(case, reply):
    return reply.startswith("ok ") and len(reply) > 16


MANIFEST = {
    "text": "Proof: a successful emission is the concatenation, in item order, of each item's encoding (labels and, upstream, definitions "
            "contribute nothing; nothing reordered, dropped or duplicated); pushN contributes its opcode byte and exactly N big-endian "
            "bytes of the in-range value, left-padded with zeros; bytesBE is value-preserving and minimal. PARTIAL: independence from the "
            "random label suffixes and insensitivity to layout (blank lines, comments, separators — a statement about the pest grammar) "
            "are exercised by the correspondence (double run, random legal layouts), not proved.",
    "note": "Trusted: Lean kernel; Asm/Assemble.lean tied by the differential run over the whole mnemonic set and all push widths; the "
            "mnemonic -> opcode mapping is the regenerated table (C17) and grammar (C03 table theorems); parsing is the generic pest "
            "interpreter over the regenerated grammar, tied by the same run.",
    "technique": "Lean 4 proof (emission = concatenation of encodings) + differential correspondence over all mnemonics/layouts + independent decoder",
}
