"""C06 — block annotations agree with instruction-by-instruction execution."""
import re
import zlib
import common as C
import evmspec as S
import evmref as R

PID = "C06"
LEAN_TARGETS = ["EtkVerif.Props.C06"]
RULE = ("blocks built directly as BasicBlock values: every opcode (all 256 bytes) in first / middle / last position "
        "around stack-shaping context, dup/swap to depth 16 with mid-block stack extension, pushes of every width, "
        "offsets around 0 and 65535; the structural reply (inputs, output expressions as prefix lists, exit, offset, size, "
        "jump_target) is compared with the model (ties the model for all entry stacks at once) and the expressions are "
        "evaluated on 3 random / boundary entry stacks against the Python reference interpreter. non-trivial = at least "
        "one input variable and one compound output or exit expression")
EXHAUSTIVE = {"quick": False, "thorough": False}
ASSUMPTIONS = ["state-dependent reads are evaluated with a deterministic function of their arguments (one admissible oracle)",
               "EVM pc/stack semantics transcribed by hand (Lean Evm/*.lean; Python tools/evmref.py)"]

ORD = [0x01, 0x03, 0x04, 0x05, 0x06, 0x07, 0x08, 0x09, 0x0a, 0x0b, 0x10, 0x12, 0x13, 0x14, 0x15, 0x19, 0x1a, 0x1b, 0x1c,
       0x1d, 0x20, 0x31, 0x35, 0x37, 0x3c, 0x40, 0x50, 0x51, 0x52, 0x53, 0x54, 0x55, 0x58, 0x5a, 0x5e, 0x5f, 0xa0,
       0xa4, 0xf0, 0xf1, 0xf4, 0xf5, 0xfa]
ENDERS = [0x00, 0x56, 0x57, 0xf3, 0xfd, 0xfe, 0xff, 0x0c, 0xef]


def enc(op, rng):
    n = S.imm_len(op)
    if n and rng.random() < 0.3:
        return bytes([op]) + bytes(n - 1) + bytes([rng.randrange(256)])
    return bytes([op]) + bytes(rng.randrange(256) for _ in range(n))


def rand_op(rng):
    r = rng.random()
    if r < 0.45: return rng.choice(ORD)
    if r < 0.6: return rng.randrange(0x60, 0x80)
    if r < 0.78: return rng.randrange(0x80, 0xa0)
    if r < 0.9: return rng.choice([0x30, 0x32, 0x33, 0x34, 0x36, 0x38, 0x3a, 0x3d, 0x41, 0x42, 0x43, 0x44, 0x45, 0x46, 0x47, 0x48, 0x59, 0x5b])
    return rng.randrange(256)


def cases(rng, tier):
    cs = []
    # every opcode in first / middle / last position
    for b in range(256):
        for pos in range(3):
            pre = b"" if pos == 0 else b"".join(enc(rand_op(rng), rng) for _ in range(rng.randrange(1, 4)))
            post = b"" if pos == 2 else b"".join(enc(rng.choice(ORD), rng) for _ in range(rng.randrange(1, 3)))
            off = rng.choice([0, 0, 1, 77, 65530, 65535])
            cs.append({"line": f"ann {off} {C.hexs(pre + enc(b, rng) + post)}", "tags": [f"pos{pos}"]})
    n = 500 if tier == "quick" else 8000
    for _ in range(n):
        k = rng.choice([1, 2, 3, 5, 8, 13, 30]) if tier == "quick" else rng.choice([1, 2, 3, 5, 8, 13, 30, 100, 300])
        body = [rand_op(rng) for _ in range(k)]
        body = [o for o in body if not ends(o)] or [0x01]
        if rng.random() < 0.6:
            body.append(rng.choice(ENDERS))
        off = rng.choice([0, 3, 1000, 65535 - k])
        cs.append({"line": f"ann {max(off, 0)} {C.hexs(b''.join(enc(o, rng) for o in body))}", "tags": ["random"]})
    return cs


def ends(op):
    s = S.of_fork("cancun", op)
    return s is None or op in R.ETK_UNDEFINED or s[2] or s[3]


FIELD = re.compile(r"off=(\d+) size=(\d+) jt=(\d) in=\[([^\]]*)\] out=\[([^\]]*)\] exit=(.*)$")


def oracle(case, reply):
    why = oracle_as(case, reply)
    if why is None:
        hx = case["line"].split(" ")[2]
        code = bytes.fromhex(hx) if hx != "-" else b""
        if R.uses_cancun_extra(code):
            with R.real_cancun():
                why2 = oracle_as(case, reply)
            if why2:
                return R.D27 + why2
    return why


def oracle_as(case, reply):
    _, off, hx = case["line"].split(" ")
    off = int(off)
    code = bytes.fromhex(hx) if hx != "-" else b""
    instrs = R.decode(code)
    if not instrs:
        return None if reply == "empty" else f"no complete instruction but reply {reply}"
    body_ends = [ends(op) for _, op, _ in instrs]
    shaped = not any(body_ends[:-1])
    # blocks a separator can never produce (an ender in the middle) may be refused; var counter < 2^16 always here
    if reply == "panic":
        if shaped:
            return "annotate panicked on a well-shaped basic block"
        return None
    m = FIELD.match(reply)
    if not m:
        return f"unparsable reply {reply}"
    if not shaped:
        return None
    boff, size, jt, ins, outs, exit_ = m.groups()
    if int(boff) != off or int(size) != sum(1 + len(i) for _, _, i in instrs):
        return f"offset/size wrong: {reply}"
    if (jt == "1") != (instrs[0][1] == 0x5b):
        return "jump_target flag wrong"
    n_in = len(ins.split(",")) if ins else 0
    if ins and [int(x) for x in ins.split(",")] != list(range(1, n_in + 1)):
        return f"inputs are not var1..var{n_in}: {ins}"
    outs = outs.split("|") if outs else []
    import random as _r
    rr = _r.Random(zlib.crc32(case["line"].encode()))
    for trial in range(3):
        extra = rr.randrange(0, 3)
        entry = [rr.choice([0, 1, 2, 31, 32, 255, 256, (1 << 255) - 1, 1 << 255, R.M - 1, R.M - 2, rr.getrandbits(256), rr.getrandbits(8)])
                 for _ in range(n_in + extra)]
        # concrete execution
        stack, pc, outcome = list(entry), off, None
        deepest = 0
        try:
            for o, op, imm in instrs:
                r = R.step(op, imm, pc, stack)
                if r[0] == "next":
                    stack = r[1]; pc += 1 + len(imm)
                else:
                    outcome = r; break
        except R.Underflow:
            return f"block declares {n_in} inputs but execution underflows an entry stack of {len(entry)}"
        if outcome is None:
            outcome = ("fall", pc); final = stack
        elif outcome[0] == "halt":
            final = None
        else:
            final = outcome[-1]
        # symbolic evaluation
        try:
            sym_out = [R.eval_flat(e, entry) for e in outs]
        except Exception as e:
            return f"output expressions do not evaluate: {e}"
        if final is not None:
            want = final[:len(final) - (len(entry) - n_in)] if len(entry) > n_in else final
            want = final[:len(sym_out)]
            rest_ok = final[len(sym_out):] == entry[n_in:]
            if sym_out != want or not rest_ok:
                return (f"entry stack {[hex(x) for x in entry]}: annotated outputs evaluate to {[hex(x) for x in sym_out]}, "
                        f"execution leaves {[hex(x) for x in final]}")
        kind = exit_.split(":")[0]
        if outcome[0] == "fall":
            if exit_ != f"fall:{outcome[1]}": return f"exit {exit_}, execution falls through to {outcome[1]}"
        elif outcome[0] == "halt":
            if kind != "term": return f"exit {exit_}, execution halts"
        elif outcome[0] == "jump":
            if kind != "jump" or R.eval_flat(exit_[5:], entry) != outcome[1]:
                return f"exit {exit_} does not evaluate to the jump destination {outcome[1]:#x}"
        elif outcome[0] == "jumpi":
            if kind != "branch": return f"exit {exit_}, execution is a conditional jump"
            _, c, t, f = exit_.split(":")
            if R.eval_flat(c, entry) != outcome[2] or R.eval_flat(t, entry) != outcome[1] or int(f) != pc + 1:
                return f"branch exit {exit_} disagrees with execution (dest {outcome[1]:#x}, cond {outcome[2]:#x}, fall {pc + 1})"
    # declared inputs = deepest entry slot touched: with one fewer entry slot the execution must underflow
    if n_in > 0:
        try:
            stack, pc = [0] * (n_in - 1), off
            for o, op, imm in instrs:
                r = R.step(op, imm, pc, stack)
                if r[0] != "next": break
                stack = r[1]; pc += 1 + len(imm)
            return f"block declares {n_in} inputs but runs on an entry stack of {n_in - 1}"
        except R.Underflow:
            pass
    return None


def nontrivial(case, reply):
    return "in=[1" in reply and "." in reply

MANIFEST = {
    "text": "Proof (T-ann): for every block the annotator model accepts, every environment, every oracle for state-dependent "
            "reads and every entry stack at least as deep as the declared inputs, instruction-by-instruction execution (an "
            "independently written pc/stack semantics) does not underflow and its final stack, exit kind, jump target, branch "
            "condition and fall-through offset are the evaluation of the annotated outputs and exit; declared inputs are "
            "exactly the deepest slot touched; offset/size/jump-target describe the block; all trees are well formed and "
            "Expr::walk over the flat encoding visits exactly the tree. Simulation invariant over all opcodes, all block "
            "lengths, all 256-bit stacks. SCOPE: the reference semantics follows the opcode set of etk's own Cancun table; for the REAL "
            "Cancun EVM the theorems hold for blocks without BLOBHASH / BLOBBASEFEE / TLOAD / TSTORE (C06_sound_cancun) and fail otherwise "
            "(C06_cancun_counterexample: push1 0; tload is annotated as terminating, the machine falls through; known finding D27).",
    "note": "Trusted: Lean kernel; Annot/Model.lean (annotate_one transcribed per opcode, StackWindow ledger) tied structurally "
            "(inputs, flat output expressions, exit, offset, size, jump_target compared as text for every opcode in every block "
            "position) to etk-dasm through the public API; Evm/Sem.lean + Evm/Ops.lean are my transcription of the Yellow "
            "Paper for pc/stack (memory, storage, gas not modelled: their reads are an oracle); hypotheses: table sizes = "
            "encoded lengths (C17) and block end <= 65536 (pc as u16).",
    "technique": "Lean 4 simulation proof (symbolic vs concrete execution) + structural differential correspondence + Python reference interpreter as search oracle",
}
