"""C20 — the control-flow graph is structurally well formed."""
import common as C
import cfgcommon as G

PID = "C20"
NEEDS = ("analyze",)
LEAN_TARGETS = ["EtkVerif.Props.C20"]
RULE = ("structured programs (1-6 blocks; jumps to real jumpdests, non-jumpdest offsets, computed and symbolic targets; "
        "unreachable blocks; truncated trailing push), jumpi whose target IS the following block (one edge for both routes) with constant / "
        "computed / input conditions, uniform random byte strings, and n/2 loop programs (2-5 blocks with exact targets: back edges into a block that is also fallen into, self-loops, forward jumps), through the real ecfg pipeline; the "
        "initial graph (nodes and edge multiset from the DOT text) must equal the model's, and the structural predicates "
        "of the property are evaluated on both real renderings. non-trivial = at least 2 blocks and one jump")
EXHAUSTIVE = {"quick": False, "thorough": False}
ASSUMPTIONS = ["petgraph's Dot prints one line per node and per edge (checked: any other line marks the reply MALFORMED)"]
canon = G.canon


def cases(rng, tier):
    cs = []
    n = 150 if tier == "quick" else 1500
    for _ in range(n):
        cs.append({"line": f"cfg {C.hexs(G.gen_program(rng))}", "exe": "analyze", "tags": ["structured"], "timeout": 1800})
    for _ in range(n // 3):
        cs.append({"line": f"cfg {C.hexs(G.gen_fallthrough_jumpi(rng))}", "exe": "analyze", "tags": ["fallthrough-jumpi"], "timeout": 1800})
    for _ in range(n // 3):
        b = bytes(rng.randrange(256) for _ in range(rng.choice([0, 1, 3, 8, 20])))
        b = bytes(x if x != 0x0a else 0x01 for x in b)
        cs.append({"line": f"cfg {C.hexs(b)}", "exe": "analyze", "tags": ["bytes"], "timeout": 1800})
    for _ in range(n // 2):
        cs.append({"line": f"cfg {C.hexs(G.gen_loops(rng))}", "exe": "analyze", "tags": ["loops"], "timeout": 1800})
    for _ in range(n // 5):
        cs.append({"line": f"cfg {C.hexs(G.gen_highbits(rng))}", "exe": "analyze", "tags": ["highbits"], "timeout": 1800})
    return cs


def code_of(case):
    h = case["line"].split(" ")[1]
    return bytes.fromhex(h) if h != "-" else b""


def oracle(case, reply):
    if reply in ("panic", "abort", "timeout"):
        return None          # totality is C15's business
    return G.structural(code_of(case), reply)


def nontrivial(case, reply):
    return reply.count("Offset") > 4 and "bad-jump," in reply

tie_check = G.tie_check
MANIFEST = {
    "text": "Proof: list-level invariants of the CFG model — one node per block plus terminate and bad-jump (special nodes cannot be "
            "edge sources by construction), every edge leads to a jumpdest-headed block, the block at the source's fall-through "
            "offset or a special node, no duplicate edges, refinement only removes edges, and with a solver sound for unsat every "
            "block keeps a successor (some query is satisfied by any interpretation) and fall-through / halting blocks keep "
            "exactly their mandatory one; building and refining never panic.",
    "note": "Trusted: Lean kernel; Cfg/Model.lean tied to cfg.rs by equality of node list and edge multiset parsed from the real DOT "
            "and by checking the query of every removed edge; petgraph's Dot renders one line per node/edge (anything else is "
            "flagged MALFORMED by the harness); SoundSat assumption on Z3.",
    "technique": "Lean 4 proof of graph-shape invariants + DOT-level differential correspondence + structural oracle on real renderings",
}
