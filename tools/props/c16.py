"""C16 — basic blocks partition the instruction stream at control-flow boundaries."""
import common as C
import evmspec as S
from props.c04 import sweep

PID = "C16"
LEAN_TARGETS = ["EtkVerif.Props.C16"]
RULE = ("instruction sequences over classes {jumpdest, jump, jumpi, stop/return/revert/invalid/selfdestruct, "
        "undefined bytes, ordinary, pushN} x random schedules of push (one at a time), push_all (batches), take, "
        "finish; thorough adds all sequences of length <= 5 over 8 class representatives x 4 schedule shapes. "
        "non-trivial = at least two blocks produced")
EXHAUSTIVE = {"quick": False, "thorough": False}
ASSUMPTIONS = ["instructions reach the separator through Disassembler::ops() (offsets chained)"]

REPS = [0x5b, 0x56, 0x57, 0x00, 0xff, 0x0c, 0x58, 0x61]


def enc(op, rng):
    n = S.imm_len(op)
    return bytes([op]) + bytes(rng.randrange(256) for _ in range(n))


def gen_sched(rng, nops, allow_bad_finish):
    toks, left = [], nops
    while left > 0:
        k = rng.randrange(1, min(left, 6) + 1)
        toks.append(("u" if rng.random() < 0.5 else "a") + str(k))
        left -= k
        r = rng.random()
        if r < 0.4:
            toks.append("t")
        elif r < 0.5:
            toks += ["t", "f"]
        elif r < 0.53 and allow_bad_finish:
            toks.append("f")
    toks += ["t", "f"]
    return ",".join(toks)


def cases(rng, tier):
    cs = []
    n = 400 if tier == "quick" else 5000
    for _ in range(n):
        k = rng.choice([0, 1, 2, 3, 5, 8, 13, 21, 40])
        ops = []
        for _ in range(k):
            r = rng.random()
            if r < 0.45:
                ops.append(rng.choice(REPS))
            elif r < 0.6:
                ops.append(rng.randrange(256))
            else:
                ops.append(rng.choice([0x01, 0x50, 0x60, 0x7f, 0x80, 0x90, 0xa0, 0x5f]))
        bs = b"".join(enc(o, rng) for o in ops)
        cs.append({"line": f"sep {C.hexs(bs)} {gen_sched(rng, k, rng.random() < 0.2)}", "tags": ["random"]})
    if tier == "thorough":
        import itertools
        for ln in range(0, 6):
            for seq in itertools.product(REPS, repeat=ln):
                bs = b"".join(enc(o, rng) for o in seq)
                for sched in (f"a{ln},t,f", ",".join(["u1,t"] * ln + ["f"]), ",".join(["u1"] * ln + ["t", "f"]), gen_sched(rng, ln, False)):
                    cs.append({"line": f"sep {C.hexs(bs)} {sched}", "tags": ["small-exhaustive"]})
    return cs


def ends(op):
    s = S.of_fork("cancun", op)
    # bytes etk does not define are invalid (halting) instructions for it
    if s is None or op in (0x5c, 0x5d, 0x49, 0x4a):
        return True
    return s[2] or s[3]


def oracle(case, reply):
    _, hx, *rest = case["line"].split(" ")
    bs = bytes.fromhex(hx) if hx != "-" else b""
    sched = [t for t in (rest[0] if rest else "").split(",") if t]
    items, _ = sweep(bs)
    if reply == "panic":
        # only legitimate when finish is called while completed blocks were not taken
        for i, t in enumerate(sched):
            if t == "f" and (i == 0 or sched[i - 1] != "t"):
                return None
        return "separator panicked although finish was only called directly after take"
    blocks = []
    fed = 0
    for tok, r in zip(sched, reply.split(" ")):
        if tok[0] in "ua":
            fed += int(tok[1:])
        if r.startswith("t:["):
            body = r[3:-1]
            blocks += [b for b in body.split("|") if b]
        elif r.startswith("f:") and r != "f:none":
            blocks.append(r[2:])
    fed = min(fed, len(items))
    flat, expect_off = [], None
    for b in blocks:
        off, size, ops = b.split(":")
        ops = [bytes.fromhex(o) for o in ops.split(".")] if ops else []
        if not ops:
            return f"empty block in `{reply}`"
        if expect_off is not None and int(off) != expect_off:
            return f"block offset {off} != previous offset + size {expect_off}"
        if int(size) != sum(len(o) for o in ops):
            return f"block size {size} is not the encoded length of its instructions"
        expect_off = int(off) + int(size)
        for j, o in enumerate(ops):
            if o[0] == 0x5b and j != 0:
                return f"jumpdest inside a block at position {j}: {b}"
            if ends(o[0]) and j != len(ops) - 1:
                return f"jump/halting instruction {o[0]:#x} is not last in its block: {b}"
        flat += ops
    if blocks and int(blocks[0].split(":")[0]) != 0:
        return "first block does not start at offset 0"
    want = [i for _, i in items[:fed]]
    if flat != want:
        return f"blocks do not concatenate to the instructions fed ({len(flat)} vs {len(want)} instructions)"
    return None


def nontrivial(case, reply):
    return reply.count("|") + reply.count("f:") - reply.count("f:none") >= 1 and "|" in reply or reply.count("t:[") > 1 and reply.count(":") > 6

MANIFEST = {
    "text": "Proof: schedule invariant by induction over arbitrary sequences of push / push_all / take / finish: handed-out ++ "
            "completed ++ in-progress blocks are non-empty, concatenate to exactly the instructions fed, have offsets chained by "
            "size, a jumpdest only first and a jump/jumpi/halting instruction only last, and are maximal; finish directly after "
            "take never panics. The table flags the separator reads are proved equal to the specification's classes for the "
            "regenerated Cancun table by kernel evaluation.",
    "note": "Trusted: Lean kernel; Blocks/Model.lean tied to etk_dasm::blocks::basic::Separator by the differential run; "
            "hypothesis JtNotEnd (no opcode both jump target and block-ending) is needed (counterexample proved) and discharged "
            "for the regenerated table on every run.",
    "technique": "Lean 4 invariant proof over schedules + kernel-evaluated flag table + differential correspondence",
}
