"""C14 — the assembler never crashes, whatever the input."""
import common as C
import asmgen as G
import asmspec as A
import fsgen as F
from props.asm_common import family_cases

PID = "C14"
LEAN_TARGETS = ["EtkVerif.Props.C14"]
PANIC_FILES = ["etk-asm/src/asm.rs", "etk-asm/src/ops.rs", "etk-asm/src/ops/expression.rs", "etk-asm/src/ops/macros.rs",
               "etk-asm/src/ops/imm.rs", "etk-asm/src/ingest.rs", "etk-asm/src/parse/mod.rs", "etk-asm/src/parse/expression.rs",
               "etk-asm/src/parse/macros.rs", "etk-asm/src/parse/args.rs"]
RULE = ("[family `provisional`: fixed-width operands over backward labels whose distance grows after they were read, in/out of range at exactly one of the two distances] four streams, every request under catch_unwind in a child process with a 10 s wall-clock limit: (1) grammar-valid programs "
        "of all generator families with injected faults (division by zero, negative / oversized operands, forward out-of-range "
        "references, recursive and mis-applied macros, unknown names); (2) near-valid texts: token deletion, duplication, swap, "
        "truncation and character substitution applied to valid programs; (3) token soup over the assembler's vocabulary and raw "
        "strings including non-ASCII; (4) file graphs: import cycles, self-includes, missing files, directories as sources, "
        "unresolvable roots, odd path strings (escapes, empty, `.`, `//`). The outcome class (ok bytes / error kind) must equal the "
        "model's, and must never be a panic, abort or time-out. non-trivial = the reply is an error")
EXHAUSTIVE = {"quick": False, "thorough": False}
ASSUMPTIONS = ["machine stack depth is outside the model: inputs nested tens of thousands deep (D16) are a listed finding, kept out of the random streams by generator bounds",
               "the pair-tree shape the parse layer relies on and the sufficiency of the walk's fuel are proved for the parser MODEL (C14_parse)"]

VOCAB = ["push1", "push2", "push32", "push0", "pc", "jumpdest", "%push", "%macro", "%end", "%def", "%import", "%include",
         "%include_hex", "(", ")", ",", ":", ";", "\n", "\n", " ", "a", "b", "lbl", "$x", "0x00", "0x", "0b1", "0o7", "12", "-3",
         "-", "+", "*", "/", "\"", "\"f.etk\"", "selector(\"f()\")", "topic(\"", "#", "%m", "m", "%", "$", "\\", "é", "\t", "dup17", "swap0"]


def mutate(rng, text):
    toks = text.replace("\n", " \n ").split(" ")
    if not toks:
        return text
    k = rng.randrange(5)
    i = rng.randrange(len(toks))
    if k == 0: del toks[i]
    elif k == 1: toks.insert(i, toks[i])
    elif k == 2 and len(toks) > 1:
        j = rng.randrange(len(toks)); toks[i], toks[j] = toks[j], toks[i]
    elif k == 3: toks = toks[:i]
    else:
        t = toks[i]
        if t:
            p = rng.randrange(len(t)); toks[i] = t[:p] + rng.choice("()%$:;,+-*/\"\\#x0 \té") + t[p + 1:]
    return " ".join(toks).replace(" \n ", "\n")


def cases(rng, tier):
    G.setup()
    cs = []
    n = 120 if tier == "quick" else 2500
    fams = [("layout", G.gen_layout), ("exprs", G.gen_exprs), ("range", G.gen_range), ("provisional", G.gen_provisional), ("macros", G.gen_macros), ("emacros", G.gen_emacros), ("forwarding", G.gen_forwarding),
            ("shrink", G.gen_shrink)]
    valid = family_cases(rng, fams, n // 4, faults=0.6)
    valid += family_cases(rng, [("nested-frames", G.gen_nested_frames), ("selfshift", G.gen_selfshift), ("cascade", G.gen_cascade)], n // 8, faults=0.3)
    valid += family_cases(rng, [("deep-args", G.gen_deep_args)], 3 if tier == "quick" else 20, faults=0.0)
    for c in valid:
        c.pop("want_ok", None); c.pop("want_err", None)
    cs += valid
    for c in list(valid):
        src = bytes.fromhex(c["line"].split(" ")[1]).decode()
        if len(src) > 3000:
            continue
        # (mutations of the deep-args cases — calls nested hundreds deep with their closing parentheses cut off — are what
        # exposed D29, exponential backtracking of the parser, repaired by 06a1b4c; they stay in the stream)
        for _ in range(2):
            m = mutate(rng, src)
            cs.append({"line": "asm " + C.txt(m), "tags": ["near-valid"], "src": m[:300]})
    for _ in range(n):
        k = rng.randrange(1, 25)
        s = "".join(rng.choice(VOCAB) + rng.choice(["", " ", " "]) for _ in range(k))
        cs.append({"line": "asm " + C.txt(s), "tags": ["soup"], "src": s[:300]})
    # odd roots
    for src in ['%import("x.etk")', '%include_hex("x.hex")', "pc", '%include("")', '%import(".")', '%import("//")', '%import("a\\\\b")', '%import("q\\"x")']:
        for path in ["/nonexistent/d/m.etk", "m.etk", "/", "", "..", "./", "/m.etk"]:
            cs.append({"line": f"asm {C.txt(src)} {C.txt(path) if path else '-'}", "tags": ["odd-root"], "src": src + " @ " + path, "impl_only": True})
    # file graphs
    graphs = [
        ("a.etk", [("f", "a.etk", b'%import("b.etk")\n'), ("f", "b.etk", b'%import("a.etk")\n')]),
        ("a.etk", [("f", "a.etk", b'%include("a.etk")\npc\n')]),
        ("a.etk", [("f", "a.etk", b'%import("d")\n'), ("d", "d")]),
        ("a.etk", [("f", "a.etk", b'%include_hex("a.etk")\n')]),
        ("a.etk", [("f", "a.etk", b'%include_hex("h")\n'), ("f", "h", b"zz")]),
        ("a.etk", [("f", "a.etk", b'%include_hex("h")\n'), ("f", "h", b"0")]),
        ("a.etk", [("f", "a.etk", b'%import("b.etk")\n'), ("f", "b.etk", b"\xff\xfe")]),
        ("a.etk", [("f", "a.etk", b"\xff\xfe")]),
        ("d", [("d", "d")]),
        ("missing.etk", []),
        ("l.etk", [("l", "l.etk", "l.etk")]),
        ("a.etk", [("f", "a.etk", b'%import("b.etk")\n'), ("f", "b.etk", b"push1 256\n")]),
        ("a.etk", [("f", "a.etk", b'%include("b.etk")\n'), ("f", "b.etk", b"%m()\n")]),
        ("a.etk", [("f", "a.etk", b'%include_hex("d")\n'), ("d", "d")]),
        ("a.etk", [("f", "a.etk", b'%include_hex("h")\n'), ("f", "h", b"\xff\xfe")]),
        ("a.etk", [("f", "a.etk", b'%include_hex("l")\n'), ("l", "l", "l")]),
    ]
    for top, ents in graphs:
        cs.append({"line": F.line(top, ents), "tags": ["file-graph"], "src": top})
    # builtins applied to the wrong number / kind of arguments (the argument-signature code of parse/args.rs)
    for src in ['%push(1, 2)', '%import("a", "b")', '%include_hex("a","b","c")', '%include("a", 1)', '%push()', '%import()', '%include()',
                '%include_hex()', '%push("a")', '%import(1)', '%include(lbl)', '%include_hex($x)', 'push1 selector("a","b")',
                'push1 selector(1)', 'push1 topic()', 'push1 selector()', '%push(selector("f()"), 1)', '%push(1,)', '%push(,1)',
                '%import("a" "b")', '%m(1,,2)', '%m(', '%push(1', '%def f(\n1\n%end', '%macro m(a,)\n%end', '%macro m(a a)\n%end']:
        cs.append({"line": "asm " + C.txt(src), "tags": ["builtin-args"], "src": src})
    # mnemonics next to the opcode table: names of unassigned / assigned bytes, upper case, out-of-range push / dup / swap / log
    for src in ["invalid", "invalid_0c", "invalid_0C", "invalid_01", "invalid_60", "invalid_fe", "invalid_ff", "invalid_EF", "invalid_", "invalid_0",
                "invalid_000", "INVALID", "Stop", "push0", "push33", "push1", "push", "dup0", "dup17", "swap0", "swap17", "log5", "log", "jumpdestx",
                "selfdestruct", "mcopy", "tload", "blobhash", "pc pc", "push1 1 2"]:
        for wrap in ("{}", "%macro m()\n{}\n%end\n%m()"):
            t = wrap.format(src)
            cs.append({"line": "asm " + C.txt(t), "tags": ["mnemonics"], "src": t})
    # for this property bounded time IS the observable: a request that exceeds the wall-clock limit is a failure
    for c in cs:
        c["time_observable"] = True
    return cs


def oracle(case, reply):
    if reply in ("panic", "abort", "timeout") or reply.startswith("nondet"):
        return f"assembler {reply.split(' ')[0]} on {case.get('src', '')[:200]!r}"
    return None


def nontrivial(case, reply):
    return reply.startswith("err")

MANIFEST = {
    "text": "Proof: every unwrap/expect/assert/panic!/unreachable! of parse/*.rs, asm.rs, ops.rs, ops/expression.rs, ops/macros.rs and ingest.rs "
            "is an explicit panic outcome of the models; for EVERY source text the parser model (pest interpreter over the regenerated "
            "grammar + pair-tree walk) reaches none of its 23 distinct unwrap/unreachable!/assert! sites and never runs out of its own fuel (C14_parse: no panic outcome at all, for every text); assemble never yields one (other than the model's own fuel "
            "marker) for any item list — recursive and mis-applied macros, division by zero, negative and out-of-range operands "
            "included; file graphs terminate too (C14_ingest_terminates: with every file at most N statements, fuel 256*(N+2) plus the assembler's bound is never the reason for an answer); and it TERMINATES: with fuel above the explicit bound 257 * (opsSize + 2) the fuel marker cannot appear either "
            "(C14_terminates; more fuel never changes an answer, C14_fuel_monotone), because macro nesting is cut off after 255 levels "
            "and bodies are finite; recursion is cut off with an error value after 255 macro levels / 255 nested sources; literal conversion fails "
            "only on strings the grammar cannot produce; ingestion returns bytes or an error value.",
    "note": "The parse layer is covered by C14_parse (every text; interpreter sound for a token-shape semantics, regenerated grammar closed "
            "under the shape specification the walk relies on) and C14_preprocess_parse (through any nesting of imports / includes). "
            "PARTIAL BY NATURE: (a) the pest interpreter and the pair-tree walk are models of pest 2.1.3 and parse/*.rs, tied to the real "
            "parser on valid / near-valid / token-soup / raw inputs and file graphs (outcome classes must equal the model's, never panic "
            "/ abort / time-out); (b) machine stack depth is not modelled: D16 (20000-term sum aborts) is a listed finding; D29 (exponential parse time on nested calls whose parentheses were not closed) was found by this stream and repaired (06a1b4c) — time is not what the fuel-based termination theorems bound. "
            "Trusted: Lean kernel; the models; child-process isolation and the per-request wall-clock limit (6 s; 10 s on the parallel path) of the harness runner.",
    "technique": "Lean 4 panic-freedom proofs over models with explicit panic outcomes + differential fuzzing in isolated child processes",
}
