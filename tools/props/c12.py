"""C12 — included files are isolated and spliced verbatim; imports are textual."""
import common as C
import fsgen as F
import asmgen as G

PID = "C12"
LEAN_TARGETS = ["EtkVerif.Props.C12"]
RULE = ("generated directory trees (depth <= 3, subdirectories sub/ and d1/d2/) of sources connected by nested %import / "
        "%include / %include_hex, with labels and auto-sized pushes on both sides of every directive, hex blobs of 0..300 "
        "bytes, label names deliberately repeated across include boundaries; materialised in a fresh directory for the real "
        "Ingest::ingest_file and given to the model as a file-system value; the reference is the composition of separately "
        "assembled parts (includes assembled on their own and spliced as raw bytes, imports pasted); plus an ISOLATION family: one "
        "include with or without labels of its own, the same macro / expression macro / label name on both sides, or a name that only "
        "the other side defines (expected: own result, resp. the matching undeclared-name error); plus a SAME-LITERAL family: libraries in a/ and b/ whose directives use the same path string for different files. non-trivial = at least "
        "two files")
EXHAUSTIVE = {"quick": False, "thorough": False}
ASSUMPTIONS = ["std::fs semantics are modelled by Asm/Ingest.lean's Tree (files, directories, symlinks)"]


def cases(rng, tier):
    cs = []
    n = 150 if tier == "quick" else 2500
    for _ in range(n):
        top, entries, want = F.gen_compose(rng)
        c = {"line": F.line(top, entries), "tags": ["compose"], "nfiles": len(entries)}
        if isinstance(want, bytes): c["want_ok"] = C.hexs(want)
        elif isinstance(want, tuple): c["want_err"] = want[1]
        cs.append(c)
    for _ in range(n // 3):
        top, entries, want, scen = F.gen_isolation(rng)
        c = {"line": F.line(top, entries), "tags": ["isolation", scen], "nfiles": len(entries)}
        if isinstance(want, bytes): c["want_ok"] = C.hexs(want)
        elif isinstance(want, tuple): c["want_err"] = want[1]
        cs.append(c)
    for _ in range(n // 5):
        top, entries, want, scen = F.gen_same_literal(rng)
        c = {"line": F.line(top, entries), "tags": ["same-literal", scen], "nfiles": len(entries)}
        if isinstance(want, bytes): c["want_ok"] = C.hexs(want)
        elif isinstance(want, tuple): c["want_err"] = want[1]
        cs.append(c)
    return cs


def oracle(case, reply):
    if "want_ok" in case or "want_err" in case:
        c = dict(case); c["src"] = "(file tree)"
        return G.oracle(c, reply)
    return None


def nontrivial(case, reply):
    return case.get("nfiles", 0) >= 2

MANIFEST = {
    "text": "Proof: each directive's contribution to the item stream — %import splices the imported file's items in place, %include "
            "yields exactly one nested scope, %include_hex raw bytes — (unfolding of the preprocess model for every source text and file "
            "system), and a nested scope contributes exactly the bytes it assembles to as a stand-alone program (own macro table, own "
            "layout from offset zero, nothing shared in either direction); raw bytes advance all later label positions by their full "
            "length (prefix-sum layout, C01); %include_hex of a file holding the hex text of bs, surrounded by any white space, yields exactly "
            "the raw bytes bs (C12_include_hex_exact); the TEXT of a directive (blanks, quoted path with backslash-escaped backslashes and quotes, any layout) parses to "
            "the directive node with exactly the unescaped path (C12_text). TEXT-LEVEL PASTE (C12_import_is_paste): a source text A; %import(f); B where f holds the text of F (all in the whole-language text family, "
            "no further file directives) is preprocessed to exactly the raw ops of the text A; F; B — the import only adds the containment check and the "
            "read of f to the trace; with %include the ops of F arrive as one nested scope (C12_include_is_scope). Outside the family (a file ending inside "
            "an unterminated %macro) the paste reading is false.",
    "note": "Trusted: Lean kernel; Asm/Ingest.lean (Root, Program, preprocess, resolve_and_ingest) and its concrete Tree file system tied "
            "to etk_asm::ingest by the differential run on generated directory trees materialised on disk; relative-path resolution is "
            "modelled by PathC (Rust Path::join/parent on Unix).",
    "technique": "Lean 4 proof (directive semantics by unfolding; scope isolation in the specification) + differential correspondence on materialised file trees + composition oracle",
}
