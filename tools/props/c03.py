"""C03 — disassembly listing re-assembles to the original bytes."""
import common as C
import evmspec as S
import evmref as R

PID = "C03"
LEAN_TARGETS = ["EtkVerif.Props.C03"]
RULE = ("byte strings of complete instructions over the opcodes the Cancun table defines: every single instruction exhaustively "
        "(149 opcodes; pushN with all-zero, leading-zero, all-ff and random immediates), random streams of 1..300 instructions, half of them written to the disassembler in pieces of 1..40 bytes with the listing collected after every write, plus n/4 streams read by a client that takes only 1-3 instructions from each ops() iterator before dropping it; "
        "disassembled by the real Disassembler, printed as `mnemonic[ 0ximm]` per line, assembled by the real Ingest; the bytes must "
        "come back and the offsets must be the prefix sums. non-trivial = at least one push with a leading-zero immediate or more "
        "than 3 instructions")
EXHAUSTIVE = {"quick": True, "thorough": True}
ASSUMPTIONS = ["the listing format is the one of DisplayOp in etk-dasm/src/bin/disease/selectors.rs: mnemonic, space, 0x + hex of the immediate (DisplayOp itself cannot run in this tree: etk-4byte/src/database.br is empty and reverse_selector panics on every immediate)"]


def defined_ops():
    return [b for b in range(256) if S.of_fork("cancun", b) is not None and b not in R.ETK_UNDEFINED]


def enc(op, rng, mode):
    n = S.imm_len(op)
    if n == 0: return bytes([op])
    if mode == 0: imm = bytes(n)
    elif mode == 1: imm = bytes(n - 1) + bytes([rng.randrange(1, 256)])
    elif mode == 2: imm = b"\xff" * n
    elif mode == 3: imm = bytes(rng.randrange(256) for _ in range(n))
    else:
        # leading zero bytes followed by k >= 2 significant bytes (not a palindrome)
        k = rng.randrange(2, n + 1) if n >= 2 else n
        sig = bytes([rng.randrange(1, 256)]) + bytes(rng.randrange(256) for _ in range(k - 1))
        imm = bytes(n - k) + sig
    return bytes([op]) + imm


def cases(rng, tier):
    cs = []
    ops = defined_ops()
    for op in ops:
        for mode in range(5 if S.imm_len(op) else 1):
            cs.append({"line": f"lst {enc(op, rng, mode).hex()}", "tags": ["single"]})
    n = 200 if tier == "quick" else 4000
    for _ in range(n):
        k = rng.choice([1, 2, 3, 5, 10, 30, 100, 300]) if tier == "thorough" else rng.choice([1, 2, 3, 5, 10, 30, 100])
        bs = b"".join(enc(rng.choice(ops), rng, rng.randrange(5)) for _ in range(k))
        if rng.random() < 0.5:
            # streaming use: written in pieces, the listing collected after every write (T-dis: the pieces cannot matter)
            sizes = []
            left = len(bs)
            while left > 0 and len(sizes) < 40:
                z = rng.choice([1, 2, 3, 5, 8, 13, 16, 31, 32, 33, rng.randrange(1, 40)])
                sizes.append(z); left -= z
            cs.append({"line": f"lst {bs.hex()} {'.'.join(map(str, sizes))}", "tags": ["stream", "pieces"]})
        else:
            cs.append({"line": f"lst {bs.hex()}", "tags": ["stream"]})
    # a client that takes one / a few instructions from each `ops()` iterator and drops it (peeking, `take(n)`, `break`
    # out of a loop) instead of draining it: offsets must still be the running byte count
    for _ in range(n // 4):
        k = rng.choice([2, 3, 5, 10, 30])
        bs = b"".join(enc(rng.choice(ops), rng, rng.randrange(5)) for _ in range(k))
        sizes = "-"
        if rng.random() < 0.5:
            zs, left = [], len(bs)
            while left > 0 and len(zs) < 40:
                z = rng.choice([1, 2, 3, 5, 8, 13, 33, rng.randrange(1, 40)])
                zs.append(z); left -= z
            sizes = ".".join(map(str, zs))
        cs.append({"line": f"lst {bs.hex()} {sizes} {rng.choice([1, 1, 2, 3])}", "tags": ["stream", "partial-iteration"]})
    # init-code sized programs handed to the disassembler in ONE write (more than the 24576-byte contract size limit, more
    # than typical internal buffer sizes): nothing may be dropped or re-ordered however much arrives at once
    for j in range(2 if tier == "quick" else 6):
        if j == 0:
            bs = bytes([0x5b]) * 0x6000 + bytes.fromhex("61000100")
        else:
            bs = b"".join(enc(rng.choice(ops), rng, rng.randrange(5)) for _ in range(rng.choice([9000, 12000])))
        cs.append({"line": f"lst {bs.hex()}", "tags": ["stream", "one-big-write"], "timeout": 900})
    return cs


def oracle(case, reply):
    h = case["line"].split(" ")[1]
    bs = bytes.fromhex(h)
    ins = R.decode(bs)
    want_offs = ",".join(str(o) for o, _, _ in ins)
    if not reply.startswith(f"offs={want_offs} fin=1 "):
        return f"offsets are not the prefix sums of instruction sizes: {reply[:100]}"
    if not reply.endswith(f"asm=ok {h}"):
        return f"listing of {h[:60]} re-assembles to `{reply.split('asm=')[1][:80]}`"
    return None


def nontrivial(case, reply):
    return len(case["line"]) > 12


MANIFEST = {
    "text": "Proof of the END-TO-END statement (C03_parse, C03_roundtrip): for every byte string whose linear sweep consists of complete "
            "instructions with defined Cancun opcodes, the listing text (`mnemonic` or `mnemonic 0x<hex>` per line) run through the full "
            "pest interpreter over the regenerated grammar, the pair-tree walk of parse_asm, Ingest::preprocess and Assembler::assemble "
            "gives back exactly the original bytes; no bound on length or immediates. The interpreter part uses a three-valued window "
            "interpreter proved sound for the interpreter model and evaluated by the kernel once per row of the regenerated opcode table "
            "on a window of character classes. Also kept: the table theorems (grammar's ordered choice consumes exactly each mnemonic, "
            "FromStr maps it back, push word_size consumes pushN and not push0, every grammar literal is known to the table); offsets are "
            "prefix sums (C04).",
    "note": "Trusted: Lean kernel; translators for the opcode table (compiled crate API) and the grammar (pest_meta parse of asm.pest), rerun "
            "on every check, so the theorems are re-decided against what the sources say now; the hand-written models (pest interpreter, "
            "Parse, Assemble, Disasm, listing format = Listing.listing) are tied to the real Disassembler / Display / Ingest by the "
            "differential run: every single instruction exhaustively and random streams, half of them written in pieces.",
    "technique": "Lean 4 proof (sound window interpreter for the pest model + kernel evaluation over the regenerated opcode table and grammar + induction over the listing) + exhaustive single-instruction and random round trips through the real code",
}
