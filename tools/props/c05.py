"""C05 — refined control-flow graph over-approximates every real execution."""
import re, subprocess
import zlib
import common as C
import cfgcommon as G
import evmref as R
import evmspec as S

PID = "C05"
NEEDS = ("analyze",)
LEAN_TARGETS = ["EtkVerif.Props.C05"]
RULE = ("(a) `smt`: for every opcode, a block `<operands> OP jump` with symbolic operands (distinct input variables) and with "
        "boundary-constant operands: the SMT-LIB text of the real z3 term (hook verif::expr_to_smt) must equal the rendering "
        "of the model's toTerm (structural, hence for all operands), and ground terms are evaluated by the system z3 against "
        "the Python EVM reference; (b) `cfg`: structured multi-block programs and per-opcode probes whose jump target / "
        "condition is computed by the opcode from boundary operands: initial graph = model's; every edge the real refinement "
        "removed must have a constant-false or z3-unsat query as the model builds it; every block is executed on generated "
        "entry stacks by the reference interpreter and every transfer must be an edge of both real graphs; whole executions "
        "from pc 0. non-trivial = the refined graph lost at least one edge or the term is compound")
EXHAUSTIVE = {"quick": False, "thorough": False}
ASSUMPTIONS = ["SoundSat: Z3 answers unsat only for unsatisfiable queries; unknown/timeout keeps the edge",
               "Z3's integer power leaves 0^0 unspecified (checked: `(= (^ 0 0) k)` is not refuted), so the EVM value 1 is admissible",
               "EVM semantics restricted to pc and stack; state-dependent reads are an arbitrary oracle; executions that "
               "underflow the stack are outside the relation",
               "SMT-LIB semantics of the emitted fragment transcribed in Smt/Term.lean, cross-checked against the system z3 on ground terms"]
canon = G.canon
tie_check = G.tie_check

BOUND = [0, 1, 2, 3, 7, 8, 10, 31, 32, 33, 255, 256, (1 << 255) - 1, 1 << 255, (1 << 255) + 1, R.M - 1, R.M - 2, R.M - 7, 1 << 253]


def cases(rng, tier):
    cs = []
    ops = sorted(set(R.OPNAME) | {0x58, 0x80, 0x90})
    for op in ops:
        cs.append({"line": f"smt 0 {bytes([op, 0x56]).hex()}", "exe": "analyze", "tags": ["smt-symbolic"]})
        cs.append({"line": f"smt 3 {bytes([op, 0x80, 0x57]).hex()}", "exe": "analyze", "tags": ["smt-symbolic"]})
    reps = 6 if tier == "quick" else 60
    for op in G.ARITH:
        k = S.of_fork("cancun", op)[0]
        for _ in range(reps):
            vals = [rng.choice(BOUND) for _ in range(k)]
            if op == 0x0a:
                vals = [rng.choice([0, 1, 2, 3, 255, R.M - 1]), rng.choice([0, 1, 2, 3, 5])]
            code = b"".join(G.push(v) for v in reversed(vals)) + bytes([op, 0x56])
            cs.append({"line": f"smt 0 {code.hex()}", "exe": "analyze", "tags": ["smt-ground"], "ground": [op, vals]})
    for _ in range(40 if tier == "quick" else 600):
        cs.append({"line": f"smt {rng.choice([0, 9, 300])} {C.hexs(G.gen_program(rng, nblocks=1))}", "exe": "analyze", "tags": ["smt-random"]})
    n = 120 if tier == "quick" else 1500
    for _ in range(n):
        cs.append({"line": f"cfg {C.hexs(G.gen_program(rng))}", "exe": "analyze", "tags": ["cfg-structured"]})
        if rng.random() < 0.25:
            cs.append({"line": f"cfg {C.hexs(G.gen_fallthrough_jumpi(rng))}", "exe": "analyze", "tags": ["cfg-fallthrough-jumpi"]})
    for _ in range(30 if tier == "quick" else 400):
        cs.append({"line": f"cfg {C.hexs(G.gen_double_read(rng))}", "exe": "analyze", "tags": ["cfg-double-read"]})
    for op in G.ARITH + [0x35, 0x51, 0x54, 0x5a]:
        for _ in range(3 if tier == "quick" else 25):
            cs.append({"line": f"cfg {C.hexs(G.gen_opcode_probe(rng, op))}", "exe": "analyze", "tags": ["cfg-probe"]})
    for _ in range(40 if tier == "quick" else 500):
        cs.append({"line": f"cfg {C.hexs(G.gen_loops(rng))}", "exe": "analyze", "tags": ["cfg-loops"]})
    for _ in range(30 if tier == "quick" else 300):
        cs.append({"line": f"cfg {C.hexs(G.gen_highbits(rng))}", "exe": "analyze", "tags": ["cfg-highbits"]})
    return cs


def z3_value(term):
    r = subprocess.run(["z3", "-in", "-T:10"], input=f"(simplify {term})\n", capture_output=True, text=True, timeout=20)
    out = r.stdout.strip()
    m = re.fullmatch(r"#x([0-9a-f]{64})", out)
    return int(m.group(1), 16) if m else None


def oracle(case, reply):
    import random
    if reply in ("panic", "abort", "timeout"):
        return None          # totality is C15's business
    line = case["line"]
    if line.startswith("smt "):
        g = case.get("ground")
        if not g or not reply.startswith("jump "):
            return None
        op, vals = g
        want = R.apply(R.OPNAME[op], vals)
        got = z3_value(reply[5:].split(" ; ")[0])
        if got is None:
            return None
        if got != want:
            return (f"solver term for {R.OPNAME[op]}({', '.join(hex(v) for v in vals)}) evaluates to {got:#x}; "
                    f"the EVM result is {want:#x}")
        return None
    h = line.split(" ")[1]
    code = bytes.fromhex(h) if h != "-" else b""
    rr = random.Random(zlib.crc32(line.encode()))
    why = G.local_executions(code, reply, rr) or G.whole_execution(code, reply, rr)
    if why is None and R.uses_cancun_extra(code):
        # the same executions under the REAL Cancun EVM (finding D27): only reported when etk's own opcode set explains
        # everything else, so that a different violation is never hidden behind it
        with R.real_cancun():
            rr = random.Random(zlib.crc32(line.encode()))
            why2 = G.local_executions(code, reply, rr) or G.whole_execution(code, reply, rr)
        if why2:
            return R.D27 + why2
    return why


def nontrivial(case, reply):
    if case["line"].startswith("smt"):
        return "(" in reply
    p = G.parse_impl(reply)
    return bool(p) and len(p[1][1]) < len(p[0][1])


MANIFEST = {
    "text": "Proof: T-cfg0 / T-cfg1 — for every block of every program, every environment, every oracle for state-dependent reads "
            "and every entry stack deep enough, the control transfer of executing the block (reference pc/stack semantics) is an "
            "edge of the graph as built and, for any solver that is sound for unsat, of the refined graph; lifted to whole "
            "execution paths by induction. Rests on T-ann (C06) and T-tr: for each of the 60 symbols and all 2^256 values per "
            "operand the emitted SMT term denotes the EVM operation (wrap-around, signedness, shifts >= 256, byte index >= 32, "
            "257/512-bit addmod/mulmod). SCOPE: the reference semantics follows the opcode set of etk's own Cancun table; for the REAL Cancun "
            "EVM the same theorems hold for blocks without BLOBHASH / BLOBBASEFEE / TLOAD / TSTORE (C05_initial_cancun, C05_refined_cancun, via "
            "execBlockC_eq) and FAIL otherwise: C05_cancun_counterexample exhibits 60005c6006565b00, whose real control transfer is in "
            "neither graph (known finding D27: etk's cancun.toml lacks the four opcodes).",
    "note": "Trusted: Lean kernel; Smt/Translate.lean tied to Z3Visit::exit by exact equality of SMT-LIB text (hook) for every "
            "opcode with symbolic operands; Smt/Term.lean = my transcription of SMT-LIB semantics (cross-checked on ground terms "
            "with z3); Cfg/Model.lean tied by equality of the initial DOT graph and by checking every removed edge's query; "
            "SoundSat and the 0^0 admissibility are assumptions about Z3; EVM semantics restricted to pc/stack (partial by "
            "nature: gas, memory, storage, call frames are an oracle). Setup hypothesis (accepted blocks, distinct offsets, "
            "code below 2^16) is stated explicitly and discharged on raw bytes by C05_pipeline_setup_exact (every block needs at most 65535 entry-stack slots: the exact condition). "
            "Real Cancun (D27): C05_initial_cancun / C05_refined_cancun / C05_path_cancun for blocks free of the four opcodes etk's table lacks, C05_cancun_counterexample otherwise.",
    "technique": "Lean 4 proof: simulation + per-operator bit-vector lemmas + graph invariants; structural SMT-LIB text tie; z3 cross-check; reference interpreter search",
}
