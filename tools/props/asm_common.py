"""Shared plumbing of the assembler property plugins."""
import common as C
import asmgen as G


def family_cases(rng, families, n, faults=0.0):
    cs = []
    for name, gen in families:
        for _ in range(n):
            p = gen(rng)
            cs.append(G.finish(p, rng, [name]))
            if faults and rng.random() < faults:
                q, kind = G.inject_fault(rng, p)
                cs.append(G.finish(q, rng, [name, "fault:" + kind]))
    return cs


def nontrivial_default(case, reply):
    return reply.startswith("ok ") and len(reply) > 12 or reply.startswith("err ")


oracle = G.oracle
