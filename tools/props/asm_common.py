"""Shared plumbing of the assembler property plugins."""
import common as C
import asmgen as G


def family_cases(rng, families, n, faults=0.0):
    cs = []
    for name, gen in families:
        for _ in range(n):
            p = gen(rng)
            cs.append(G.finish(p, rng, [name]))
            if faults and rng.random() < faults:
                q, kind = G.inject_fault(rng, p)
                cs.append(G.finish(q, rng, [name, "fault:" + kind]))
    return cs


def nontrivial_default(case, reply):
    return reply.startswith("ok ") and len(reply) > 12 or reply.startswith("err ")


oracle = G.oracle


def modelgen_cases(rng, cmd, n, tag, sizes=(0, 1, 2, 3, 5, 8, 13)):
    """members of a theorem's text family generated and rendered BY THE MODEL (`proggen` / `fullgen`), then assembled by the
    real code: the tie compares the two answers on exactly the texts the theorem is about.  `nodes=1`: the model's own walk
    gave one node per statement."""
    import re
    reqs = [f"{cmd} {rng.randrange(1 << 40)} {rng.choice(sizes)}" for _ in range(n)]
    outs = C.run_lines(C.MODEL_EXE, reqs, timeout=600)
    cs = []
    for q, o in zip(reqs, outs):
        m = o and re.match(r"text=(\S+) nodes=(\d)", o)
        if not m:
            cs.append({"line": "asm -", "tags": [tag, "generator-failed"], "src": f"{q} -> {o}", "want_ok": "generator-failed"})
            continue
        h = m.group(1)
        c = {"line": f"asm {h}", "tags": [tag], "src": bytes.fromhex(h).decode("utf-8", "replace") if h != "-" else ""}
        if m.group(2) != "1":
            # the generator does not enforce the one semantic side condition of the family (a CLOSED pushN operand must
            # fit, else the parser itself rejects it with ImmediateTooLarge): such texts are outside the theorem's
            # family; they still go through the tie
            c["tags"] = [tag, "outside-family"]
        cs.append(c)
    return cs
