"""C04 — disassembly is lossless and independent of chunking."""
import common as C
import evmspec as S

PID = "C04"
LEAN_TARGETS = ["EtkVerif.Props.C04"]
RULE = ("byte strings over all 256 opcodes (uniform bytes, push-heavy, truncated tails) x random partitions into "
        "writes (1-byte writes, boundaries inside immediates) x random interleavings of poll-all / poll-k; "
        "thorough adds exhaustive strings of length <= 4 over {00,5b,60,61,7f,fe,ab} x all partitions x poll/no-poll "
        "after each write. non-trivial = some instruction's bytes are split across two writes, or a truncated tail")
EXHAUSTIVE = {"quick": False, "thorough": False}
ASSUMPTIONS = ["bytes are fed through the public io::Write impl only"]


def sweep(bs):
    items, off = [], 0
    while off < len(bs):
        n = S.imm_len(bs[off])
        if off + 1 + n > len(bs):
            break
        items.append((off, bs[off:off + 1 + n]))
        off += 1 + n
    return items, off


def gen_bytes(rng):
    n = rng.choice([0, 1, 2, 3, 5, 8, 13, 33, 34, 40, 64, 100, rng.randrange(1, 300)])
    mode = rng.randrange(4)
    out = bytearray()
    while len(out) < n:
        if mode == 0:
            out.append(rng.randrange(256))
        elif mode == 1:
            k = rng.randrange(1, 33)
            out.append(0x5f + k)
            out += bytes(rng.randrange(256) for _ in range(k))
        elif mode == 2:
            out.append(rng.choice([0x00, 0x5b, 0x56, 0x57, 0x60, 0x61, 0x7f, 0xfe, 0xff, 0x5f, 0x5e, 0x0c]))
        else:
            out.append(rng.choice([0x60, 0x7f, 0x7e, 0x61]))
    out = bytes(out[:n]) if rng.random() < 0.5 else bytes(out)
    return out


def gen_sched(rng, n):
    toks, left = [], n
    style = rng.randrange(4)
    while left > 0:
        w = 1 if style == 0 else rng.randrange(1, max(2, min(left, 40)) + 1)
        w = min(w, left)
        toks.append(f"w{w}")
        left -= w
        r = rng.random()
        if style == 3:
            continue
        if r < 0.5:
            toks.append("pa")
        elif r < 0.8:
            toks.append(f"p{rng.randrange(0, 4)}")
    if rng.random() < 0.8:
        toks.append("pa")
    return ",".join(toks)


def cases(rng, tier):
    cs = []
    n = 400 if tier == "quick" else 6000
    for _ in range(n):
        b = gen_bytes(rng)
        cs.append({"line": f"dis {C.hexs(b)} {gen_sched(rng, len(b))}", "tags": ["random"]})
    if tier == "thorough":
        import itertools
        alpha = [0x00, 0x5b, 0x60, 0x61, 0x7f, 0xfe, 0xab]
        for ln in range(0, 5):
            for bs in itertools.product(alpha, repeat=ln):
                for cuts in range(1 << max(0, ln - 1)):
                    parts, cur = [], 1
                    for i in range(ln - 1):
                        if cuts >> i & 1:
                            parts.append(cur); cur = 1
                        else:
                            cur += 1
                    if ln:
                        parts.append(cur)
                    for polls in (0, (1 << len(parts)) - 1, rng.getrandbits(len(parts)) if parts else 0):
                        toks = []
                        for i, p in enumerate(parts):
                            toks.append(f"w{p}")
                            if polls >> i & 1:
                                toks.append("pa")
                        toks.append("pa")
                        cs.append({"line": f"dis {C.hexs(bytes(bs))} {','.join(toks)}", "tags": ["small-exhaustive"]})
    return cs


def expected(line):
    _, hx, *rest = line.split(" ")
    bs = bytes.fromhex(hx) if hx != "-" else b""
    sched = rest[0] if rest else ""
    out, pos, written, emitted = [], 0, b"", 0
    for tok in [t for t in sched.split(",") if t]:
        if tok[0] == "w":
            n = int(tok[1:]); chunk = bs[pos:pos + n]; pos += len(chunk); written += chunk
            out.append(f"w{len(chunk)}")
        else:
            items, _ = sweep(written)
            k = len(items) if tok[1:] == "a" else int(tok[1:])
            got = items[emitted:emitted + k]
            emitted += len(got)
            out.append("p[" + ";".join(f"{o}:{C.hexs(b)}" for o, b in got) + "]")
    items, _ = sweep(written)
    done = sum(len(b) for _, b in items[:emitted])
    rest_bytes = written[done:]
    out.append("fin=ok" if not rest_bytes else f"fin=trunc:{done}:{C.hexs(rest_bytes)}")
    return " ".join(out)


def oracle(case, reply):
    want = expected(case["line"])
    if reply != want:
        return f"disassembler output differs from the chunk-independent linear sweep: got `{reply}`, expected `{want}`"
    return None


def nontrivial(case, reply):
    _, hx, *rest = case["line"].split(" ")
    bs = bytes.fromhex(hx) if hx != "-" else b""
    if "trunc" in reply:
        return True
    # an instruction split across writes
    bounds, pos = set(), 0
    for tok in (rest[0] if rest else "").split(","):
        if tok.startswith("w"):
            pos += int(tok[1:]); bounds.add(pos)
    items, _ = sweep(bs)
    return any(o < b < o + len(i) for o, i in items for b in bounds)


def shrink(f, fails):
    """delta-debug bytes (single write + poll all) then keep the original schedule if needed"""
    case = f["case"]
    _, hx, *rest = case["line"].split(" ")
    bs = bytes.fromhex(hx) if hx != "-" else b""
    best = f
    changed = True
    while changed and len(bs) > 1:
        changed = False
        for i in range(len(bs)):
            cand = bs[:i] + bs[i + 1:]
            for sched in (f"w{len(cand)},pa", ",".join(["w1,pa"] * len(cand))):
                c = {"line": f"dis {C.hexs(cand)} {sched}"}
                why = fails(c)
                if why:
                    bs, best, changed = cand, {"case": c, "impl": "(see rerun)", "why": why}, True
                    break
            if changed:
                break
    return best

MANIFEST = {
    "text": "Proof: for every history of write and poll events, an invariant proved by induction over the history gives "
            "bytes(emitted) ++ buffer = written, prefix-sum offsets, and decodeAll(written) = emitted ++ sweep(buffer); polled to "
            "exhaustion, emitted = decodeAll(written) and finish reports exactly the incomplete tail. The right-hand sides mention "
            "no chunk boundary (C04_chunking_independent). No bound on lengths, chunk counts or interleavings.",
    "note": "Trusted: Lean kernel; Disasm/Model.lean (Iter::next incl. consume-before-from_slice, write, finish) tied to "
            "etk_asm::disasm by the differential run over (bytes, partition, poll interleaving) triples; SizeOK hypothesis discharged "
            "from the regenerated Cancun table (C17 checker). VecDeque/split_off are modelled as list take/drop.",
    "technique": "Lean 4 invariant proof over operation histories + differential correspondence with the real Disassembler",
}
