"""C10 — instruction macros behave as hygienic textual expansion."""
import common as C
import asmgen as G
from props.asm_common import family_cases, oracle

PID = "C10"
LEAN_TARGETS = ["EtkVerif.Props.C10"]
RULE = ("two-level instruction macro programs: 0-2 parameters, local labels used bare and inside compound expressions, parameters "
        "inside compound operands and %push, an outer macro forwarding its parameters (and its own local label) to an inner one, "
        "name clashes between local / outer / argument labels (`a`, `outer`), repeated expansions, definitions before or after "
        "use; the reference expands hygienically in Python (fresh names, simultaneous substitution) and assembles the macro-free "
        "result. plus injected faults (arity, unknown macro, recursion). non-trivial = a macro with parameters is expanded twice "
        "or a local label is used")
EXHAUSTIVE = {"quick": False, "thorough": False}
ASSUMPTIONS = ["the whole-language text family FullText is a structured description of source text (Asm/FullText.lean); the model itself renders members of it for the real assembler (`fullgen` stream)", "random label suffixes never collide with each other or with user labels (rand collision-freedom)"]


def cases(rng, tier):
    n = 400 if tier == "quick" else 6000
    from props.asm_common import modelgen_cases
    cs = family_cases(rng, [("macros", G.gen_macros)], n, faults=0.2)
    # whole-language texts generated and rendered by the model (FullText family: macro definitions and invocations,
    # expression macros, calls, $variables, selector/topic, directives, any layout)
    cs += modelgen_cases(rng, "fullgen", 200 if tier == "quick" else 3000, "fulltext", sizes=(1, 2, 3, 4, 6, 9))
    cs += family_cases(rng, [("many-expansions", G.gen_many_expansions)], 1 if tier == "quick" else 8, faults=0.0)
    # arguments mentioning labels whose position is still provisional when the invocation is read
    cs += family_cases(rng, [("macro-arg-layout", G.gen_macro_arg_layout)], n // 10, faults=0.0)
    return cs


def nontrivial(case, reply):
    s = case.get("src", "")
    return s.count("%inner(") + s.count("%outer_m(") >= 2 or "a:" in s


MANIFEST = {
    "text": "Proof: flattening a scope whose first invocation follows plain items equals flattening the scope with that invocation "
            "replaced by its instantiated body (arity checked, body labels renamed to names drawn for this expansion, all parameters "
            "substituted simultaneously wherever they occur — compound operands, %push, arguments of nested invocations and of "
            "expression macro calls — with the arguments not re-examined), the suffix counter advanced; same items, hence same bytes or "
            "same failure. FOR THE ASSEMBLER MODEL ITSELF (C10_assemble_expansion / _conv / _rejects): assemble on pre; %name(args); post yields exactly what it yields on "
            "pre; body'; post — same bytes or same error — up to the recursion limit; an unexpandable invocation fails with the matching error when the statements before it are fed without error. FAILURE HALF (specification's flatten phase): an invocation that cannot be expanded fails with exactly the matching error (C10_rejects); if the program with the invocation "
            "fails with e (other than the recursion limit) the expanded program fails with e (C10_expansion_error); whatever the expanded program yields the invocation yields, "
            "or stops at the 255-level limit (C10_expansion_conv). flattenAll iterates this; definitions are collected before flattening. T-asm (C13) ties flatten to "
            "Assembler::push / expand_macro. TEXT (C10_text): for the WHOLE surface language — %macro definitions with bodies, invocations, "
            "expression macros, $variables, calls, selector/topic, directives with escaped paths, any legal layout — every structured "
            "program text goes through the full pest interpreter over the regenerated grammar and the walk of parse_asm to exactly one "
            "node per statement (definition: name, parameters, body ops; invocation: name, argument expressions).",
    "note": "Trusted: Lean kernel; Asm/Assemble.lean (expand_macro as repaired) tied by the differential run; freshness of the random "
            "suffixes (no collision with user labels) is an assumption about rand; the statement is about item lists; GIVEN freshness, the bytes "
            "do not depend on the chosen suffixes (C02_suffix_independent); every case is also assembled twice by the real code.",
    "technique": "Lean 4 proof (expansion step lemma over the specification's flatten) + differential correspondence + Python hygienic-expansion oracle",
}
