"""C19 — hex adapters exact for every chunking."""
import common as C

PID = "C19"
LEAN_TARGETS = ["EtkVerif.Props.C19"]
RULE = ("hex texts (+-0x prefix, +- one or two trailing blanks of several kinds, odd digit counts, non-hex and upper-case "
        "characters, blanks inside) x reader fragmentations (1-byte reads, cyclic chunk patterns, whole) x caller buffer sizes "
        "1..9 (cyclic patterns); HexWrite over scripted sinks (even / odd / zero acceptances) and call sizes; thorough adds "
        "all texts of length <= 5 over {0,x,a,F,g,\\n} x 6 fragmentations x 4 buffer patterns. non-trivial = the text is "
        "split by the reader inside the prefix or inside a digit pair, or the text is malformed")
EXHAUSTIVE = {"quick": False, "thorough": False}
ASSUMPTIONS = ["the underlying reader honours io::Read (returns 0 only at end of input)",
               "HexRead is reached through the verif-hooks constructor, not through a FIFO"]
WS = [0x09, 0x0a, 0x0b, 0x0c, 0x0d, 0x20, 0x85, 0xa0]


def hexval(c):
    if 48 <= c <= 57: return c - 48
    if 97 <= c <= 102: return c - 87
    if 65 <= c <= 70: return c - 55
    return None


def denote(text: bytes):
    body = text[2:] if text[:2] == b"0x" else text
    if len(body) % 2 == 1 and body[-1] in WS:
        body = body[:-1]
    if len(body) % 2 == 1:
        return None
    out = bytearray()
    for i in range(0, len(body), 2):
        a, b = hexval(body[i]), hexval(body[i + 1])
        if a is None or b is None:
            return None
        out.append(a * 16 + b)
    return bytes(out)


def gen_text(rng):
    n = rng.choice([0, 1, 2, 3, 4, 5, 8, 16, 33, rng.randrange(0, 80)])
    digits = "0123456789abcdef" if rng.random() < 0.7 else "0123456789abcdefABCDEF"
    t = "".join(rng.choice(digits) for _ in range(n))
    if rng.random() < 0.5:
        t = "0x" + t
    r = rng.random()
    if r < 0.35:
        t += chr(rng.choice([0x0a, 0x20, 0x09, 0x0d]))
    elif r < 0.42:
        t += "\n\n"
    b = t.encode("latin-1")
    r = rng.random()
    if r < 0.06 and b:
        i = rng.randrange(len(b)); b = b[:i] + bytes([rng.choice([0x67, 0x78, 0x20, 0x0a, 0x58, 0x2d, 0x85, 0xa0, 0xff])]) + b[i + 1:]
    elif r < 0.10:
        b += bytes([rng.choice([0x85, 0xa0, 0x0b, 0x0c])])
    return b


def pat(rng, lo, hi):
    r = rng.random()
    if r < 0.2: return "-"
    if r < 0.45: return "1"
    return ".".join(str(rng.randrange(lo, hi)) for _ in range(rng.randrange(1, 5)))


def cases(rng, tier):
    cs = []
    n = 600 if tier == "quick" else 8000
    for _ in range(n):
        t = gen_text(rng)
        cs.append({"line": f"hexr {C.hexs(t)} {pat(rng, 1, 7)} {pat(rng, 1, 10)}", "tags": ["read"]})
    for _ in range(n // 3):
        d = bytes(rng.randrange(256) for _ in range(rng.choice([0, 1, 2, 3, 7, 20])))
        acc = rng.choice(["-", "2", "4.2", "1", "3", "2.3", "0", "2.0.2", "6.1"]) if rng.random() < 0.7 else pat(rng, 0, 9)
        cs.append({"line": f"hexw {C.hexs(d)} {acc} {pat(rng, 1, 6)}", "tags": ["write"]})
    if tier == "thorough":
        import itertools
        alpha = b"0xaFg\n"
        for ln in range(0, 6):
            for t in itertools.product(alpha, repeat=ln):
                for ch in ("-", "1", "2", "1.2", "3", "2.1.1"):
                    for bf in ("1", "2", "3", "1.2"):
                        cs.append({"line": f"hexr {C.hexs(bytes(t))} {ch} {bf}", "tags": ["small-exhaustive"]})
    return cs


def oracle(case, reply):
    f = case["line"].split(" ")
    if f[0] == "hexr":
        text = bytes.fromhex(f[1]) if f[1] != "-" else b""
        want = denote(text)
        if want is None:
            if not reply.startswith("err"):
                return f"malformed hex text {text!r} read as `{reply}` instead of an error"
            return None
        if reply != f"ok {C.hexs(want)}":
            return f"hex text {text!r} chunks={f[2]} bufs={f[3]} read as `{reply}`, denotes {want.hex()}"
        return None
    if f[0] == "hexw":
        data = bytes.fromhex(f[1]) if f[1] != "-" else b""
        st, sink, total = reply.split(" ")
        sink = bytes.fromhex(sink).decode() if sink != "-" else ""
        total = int(total)
        accepts = [] if f[2] == "-" else [int(x) for x in f[2].split(".")]
        if st in ("ok", "stall"):
            if sink != data[:total].hex():
                return f"sink holds {sink!r} but {total} bytes were reported written ({data[:total].hex()})"
            if st == "ok" and total != len(data):
                return "reported ok without writing everything"
        if st == "err" and all(a % 2 == 0 for a in accepts):
            return "error although every acceptance was even"
        if st != "err" and len(sink) % 2 == 1:
            return "continued after the sink accepted an odd number of characters"
        return None
    return None


def nontrivial(case, reply):
    f = case["line"].split(" ")
    if f[0] == "hexr":
        return f[2] != "-" or reply.startswith("err")
    return f[2] != "-"

MANIFEST = {
    "text": "Proof: readAll_correct — for every text, every fragmentation schedule of the underlying reader and every sequence of "
            "caller buffer sizes, reading to the end through the HexRead model yields exactly the bytes the text denotes, or an "
            "error iff it is malformed, and bytes delivered before an error decode a prefix correctly (induction on the remaining "
            "text with an inner-loop characterisation; fuel bounds proved). HexWrite: even acceptances give sink = lowercase hex of "
            "the reported bytes, an odd acceptance is an error, encode-then-decode is the identity. No bound on lengths or schedules.",
    "note": "Trusted: Lean kernel; Hex/Model.lean (transcription of impl Read for HexRead / impl Write for HexWrite, hex crate codec, "
            "char::is_whitespace on Latin-1) tied to etk-cli by the differential run behind a scripted reader/sink (hook "
            "etk_cli::io::verif_hex_reader); the io::Read contract of the underlying reader (0 only at end of input) is assumed. "
            "Partial by nature: OS-level FIFO behaviour is not modelled.",
    "technique": "Lean 4 inductive proof over texts x reader schedules x buffer sizes + differential correspondence (scripted reader/sink)",
}
