"""C13 — programs assemble exactly when well formed; faults yield the matching error."""
import common as C
import asmgen as G
from props.asm_common import family_cases, oracle

PID = "C13"
LEAN_TARGETS = ["EtkVerif.Props.C13"]
RULE = ("[thorough adds EVERY program of up to 4 statements over a 9-statement alphabet: two labels, %push / push1 over them, an operand valid only at one distance, a 253-byte filler, a macro with a local label used twice — 7380 programs] [family `provisional`: fixed-width operands over backward labels whose distance grows after they were read, in/out of range at exactly one of the two distances] well-formed programs of every generator family (layout, operators, ranges, instruction macros, expression macros; backward "
        "and forward references, also mixed within one operand) and the same programs with one injected fault out of 18 kinds "
        "(undefined label bare / in a compound operand, duplicate label, unknown instruction / expression macro, duplicate macro "
        "name across kinds, arity mismatch, division by zero, too-large and negative operands, unbound variable, self-recursive "
        "instruction / expression macro) at a random position; the reference computes the full fault set on the hygienically "
        "expanded program; the implementation's error kind (and name, when it carries one) must be one of them, with an empty "
        "output buffer. non-trivial = the program has a fault or uses a forward reference")
EXHAUSTIVE = {"quick": False, "thorough": False}   # thorough adds an exhaustive family over a small alphabet (see RULE)
ASSUMPTIONS = ["when several faults are present any one of them is an acceptable report"]


def cases(rng, tier):
    n = 90 if tier == "quick" else 1500
    fams = [("layout", G.gen_layout), ("exprs", G.gen_exprs), ("range", G.gen_range), ("provisional", G.gen_provisional), ("macros", G.gen_macros),
            ("emacros", G.gen_emacros), ("forwarding", G.gen_forwarding), ("autopush", G.gen_autopush)]
    cs = family_cases(rng, fams, n, faults=0.7)
    cs += family_cases(rng, [("nested-frames", G.gen_nested_frames), ("selfshift", G.gen_selfshift)], n // 2, faults=0.3)
    cs += family_cases(rng, [("missing-args", G.gen_missing_args)], n // 3, faults=0.0)
    if tier == "thorough":
        cs += exhaustive_small(rng)
    return cs


def exhaustive_small(rng):
    """EVERY program of up to 4 statements over a small alphabet that exercises the bookkeeping of the assembler: two
    labels (defined / used forward and backward / undefined / duplicated), variable-sized and fixed pushes over them, a
    253-byte filler that moves a label across the one-byte boundary, a macro with a local label used twice, an
    operand in range only at one of the two distances"""
    import itertools
    alpha = [
        ("label", "a"), ("label", "b"),
        ("apush", G.X(rng, ["a"])), ("apush", G.X(rng, ["b"])),
        ("push", 1, G.X(rng, ["b"])), ("push", 1, G.X(rng, ["b", "-", "a", "-", "3"])),
        ("FILL",), ("op", "jumpdest"),
        ("minv", "m", [G.X(rng, ["a"])]),
    ]
    mdef = ("mdef", "m", ["x"], [("label", "l"), ("push", 2, G.X(rng, ["l", "*", "256", "+", "l", "+", "$x"]))])
    cs = []
    for k in range(1, 5):
        for combo in itertools.product(alpha, repeat=k):
            prog = []
            for st in combo:
                prog += G.filler(rng, 253) if st == ("FILL",) else [st]
            if any(st[0] == "minv" for st in combo):
                prog = [mdef] + prog
            cs.append(G.finish(prog, None, ["exhaustive-small"]))
    return cs


def nontrivial(case, reply):
    return reply.startswith("err") or "fwd" in case.get("src", "")


MANIFEST = {
    "text": "Proof (T-asm): the implementation model of Assembler::assemble — items fed one at a time, provisional label positions, the "
            "undeclared-label set, feed-time and emission-time checks, deferral of label-dependent range errors, nested scopes — returns "
            "bytes IF AND ONLY IF the program is WellFormed (every macro name defined once, every invocation resolves with matching "
            "arity and expansion ends, no label defined twice, every mentioned label and expression macro defined, every operand "
            "evaluates under the final layout to a value that fits its push), and then exactly the specification's bytes; otherwise an "
            "error value and no bytes; no internal panic outcome is reachable. Error kinds name real faults: UndeclaredLabels ls lists — as a "
            "set — exactly the labels operands of the reporting scope mention and that scope does not define (never empty); "
            "UndeclaredInstructionMacro n only for a name that is not an instruction macro of its scope; DuplicateMacro n exactly for a "
            "scope defining n twice; UndeclaredExpressionMacro n only when the reporting scope declares no expression macro n; "
            "MacroArgumentCount n only for an instruction macro n of the reporting scope; MacroRecursionLimit n only for a declared macro; DivisionByZero only if the scope's text contains a division; DuplicateLabel l only if l is written twice (top level or one macro body) or is a mangled name. USE-SITE forms: the same scope "
            "contains the call / invocation (with a different argument count) / `$v` in its text and lacks (has) the definition. The repaired defect D28 (too few arguments for an expression macro) is recorded as C13_missing_argument_rejected. Simulation invariant by induction over fuel, for all programs and suffix supplies.",
    "note": "Trusted: Lean kernel; Asm/Assemble.lean tied to asm.rs (as repaired) by the differential run on well-formed programs and 18 "
            "fault kinds at random positions; Asm/Spec.lean is my formalisation of 'well formed'; which error is reported first when "
            "several faults coexist is not specified (any is accepted; nine of the eleven error kinds have provenance theorems, the two range kinds "
            "are matched against the Python fault set and have the converse theorems of C09); parsing is covered by C14_parse / C03 / C02 for "
            "their families and otherwise tied.",
    "technique": "Lean 4 refinement proof (implementation model = specification, iff) + differential correspondence + Python fault-set oracle",
}
