"""C07 — auto-sized pushes hold their exact value; constants get the minimal width."""
import common as C
import asmgen as G
from props.asm_common import family_cases, oracle

PID = "C07"
LEAN_TARGETS = ["EtkVerif.Props.C07"]
RULE = ("%push of constants at every byte-length boundary 2^(8k)-1 / 2^(8k) / +1 for k = 0..33 and random values, each written three "
        "ways (literal in a random radix, arithmetic expression, expression-macro call), between labels and inside macros; %push of "
        "label expressions from the layout family; negative and > 32-byte values. Reference: Python big integers, minimal width, "
        "least fixed point layout; plus n/5 each of: a push that shifts its own label (`%push(lbl + K)`, `lbl * M`) and grows 1->2->3 in successive rounds, cascading widenings of 2-4 pushes in any program order, the 64 KiB twice-growing family. non-trivial = value needs more than one byte")
EXHAUSTIVE = {"quick": False, "thorough": False}
ASSUMPTIONS = []


def cases(rng, tier):
    n = 250 if tier == "quick" else 4000
    cs = family_cases(rng, [("autopush", G.gen_autopush), ("layout", G.gen_layout), ("shrink", G.gen_shrink)], n, faults=0.0)
    # pushes that grow more than once / in cascades over several relaxation rounds: the immediate must be the value under the FINAL layout
    cs += family_cases(rng, [("selfshift", G.gen_selfshift), ("cascade", G.gen_cascade), ("twice", G.gen_twice)], n // 5, faults=0.0)
    return cs


def nontrivial(case, reply):
    return any(w > 1 for w in (case.get("info") or {}).get("widths", [])) or reply.startswith("err")


MANIFEST = {
    "text": "Proof: a %push(e) in a successful emission is one push instruction 0x5f+w whose w immediate bytes are the big-endian value "
            "of e under the final layout with 0 <= v < 256^w; if e mentions no label, w is exactly the minimal byte length of v (one "
            "byte for zero) wherever the push stands (the width loop starts at 1 and label-free values are layout-independent), so "
            "equal constants in any spelling give identical bytes; negative values and values needing more than 32 bytes cannot be "
            "encoded at any allotted width.",
    "note": "Trusted: Lean kernel; Asm/Assemble.lean tied by the differential run; bytesBE models BigInt::to_bytes_be (proved minimal and "
            "value-preserving); the spelling clause relies on C08 (literal values, arithmetic) and C11 (expression macros).",
    "technique": "Lean 4 proof (exact emission, minimal width for closed operands) + differential correspondence + big-integer oracle",
}
