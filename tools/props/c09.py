"""C09 — out-of-range operands are rejected, never truncated."""
import common as C
import asmgen as G
from props.asm_common import family_cases, oracle

PID = "C09"
LEAN_TARGETS = ["EtkVerif.Props.C09"]
RULE = ("[family `provisional`: fixed-width operands over backward labels whose distance grows after they were read, in/out of range at exactly one of the two distances] pushN operands at 256^N-2 .. 256^N+1 for N = 1..3 and negative operands, with the operand a constant, a backward label, a "
        "forward label (value known only after layout), a macro argument, or a label difference; plus the layout family (operands "
        "that cross a boundary only after other pushes were widened). The reply must be ok with exactly the value's bytes, or an "
        "error with an empty output buffer; never a panic. non-trivial = the operand is within 2 of a width boundary")
EXHAUSTIVE = {"quick": False, "thorough": False}
ASSUMPTIONS = []


def cases(rng, tier):
    n = 300 if tier == "quick" else 5000
    cs = family_cases(rng, [("range", G.gen_range), ("provisional", G.gen_provisional), ("layout", G.gen_layout), ("shrink", G.gen_shrink)], n, faults=0.1)
    # differences / sums around 2^63, 2^64, 2^128: a negative or too large operand must not come out as a wrapped machine word
    cs += family_cases(rng, [("exprs-wide", G.gen_exprs_wide)], n // 4, faults=0.0)
    return cs


def nontrivial(case, reply):
    return "range" in case.get("tags", []) or reply.startswith("err")


MANIFEST = {
    "text": "Proof: in every successful emission each pushN operand satisfies 0 <= v < 256^N and each %push operand 0 <= v < 256^w <= 2^256 "
            "under the final label values, and the bytes written are exactly the big-endian digits of v (no wrap, truncation or sign "
            "conversion is expressible: concretize only returns bytes in range); failure carries no bytes and ingest_file outputs only on "
            "success. By T-asm (C13) label-dependent operands are decided under the final layout, not the provisional one. WHOLE PROGRAMS (C09_assemble): "
            "if the assembler model returns bytes, every pushN / %push of the expanded program is in range under the final layout that produced those bytes.",
    "note": "Trusted: Lean kernel; Asm/Assemble.lean (Concretize, push error mapping and deferral, emit_bytecode) tied by the differential "
            "run around every boundary with constant / backward / forward / macro-argument operands; the parse-time check "
            "(ImmediateTooLarge) is modelled in Asm/Parse.lean.",
    "technique": "Lean 4 proof (range invariant of emission) + differential correspondence + big-integer oracle",
}
