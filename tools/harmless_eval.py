#!/usr/bin/env python3
"""harmless_eval.py <id> <worktree> [<properties>...]
A behaviour-preserving change of /repo (a refactoring written by somebody who was told to preserve behaviour exactly):
stores it under /verif/harmless/<id>/, applies it to /repo, runs the quick checks (all 20 unless listed), undoes it and
records which checks stayed quiet and which raised an alarm (a false alarm unless the refactoring turns out NOT to be
behaviour preserving)."""
import json, os, re, shutil, subprocess, sys, time

hid, wt = sys.argv[1], sys.argv[2]
props = sys.argv[3:] or [f"C{i:02d}" for i in range(1, 21)]
dst = f"/verif/harmless/{hid}"
os.makedirs(dst, exist_ok=True)
shutil.copy(f"{wt}/SEED_PATCH.diff", f"{dst}/patch.diff")
if os.path.exists(f"{wt}/SEED_NOTES.md"):
    shutil.copy(f"{wt}/SEED_NOTES.md", f"{dst}/NOTES.md")
assert subprocess.run("git -C /repo status --porcelain", shell=True, capture_output=True, text=True).stdout.strip() == "", "/repo is not clean"
meta = {"id": hid, "files": sorted(set(re.findall(r"^\+\+\+ b/(\S+)", open(f"{dst}/patch.diff").read(), re.M))), "checks": {}}
subprocess.run(f"git -C /repo apply {dst}/patch.diff", shell=True, check=True)
try:
    # the repository's own suite with the change (all five crates)
    env = dict(os.environ, CARGO_TARGET_DIR="/tmp/confirmtarget", CARGO_NET_OFFLINE="true")
    r = subprocess.run("cargo test --offline -p etk-ops -p etk-asm -p etk-dasm -p etk-analyze -p etk-cli 2>&1 | grep -E '^test result|FAILED|^error'",
                       shell=True, cwd="/repo", env=env, capture_output=True, text=True, timeout=7200)
    meta["suite"] = {"passed": sum(int(x) for x in re.findall(r"(\d+) passed", r.stdout)),
                     "failed": sum(int(x) for x in re.findall(r"(\d+) failed", r.stdout)), "errors": bool(re.search(r"^error", r.stdout, re.M))}
    for p in props:
        t0 = time.time()
        r = subprocess.run(["./check", p, "quick"], cwd="/verif", capture_output=True, text=True, timeout=7200)
        lines = [l for l in r.stdout.splitlines() if l.startswith("VIOLATION") or l.startswith(p + " ") or l.startswith("INFRA")]
        meta["checks"][p] = {"rc": r.returncode, "lines": lines, "s": round(time.time() - t0, 1)}
        m = re.search(r"replay=(\S+)", r.stdout)
        if r.returncode != 0 and m and os.path.exists(os.path.join("/verif", m.group(1))):
            rp = json.load(open(os.path.join("/verif", m.group(1))))
            meta["checks"][p]["why"] = (rp.get("why") or str(rp.get("theorems_not_checking") or rp.get("correspondence_disagreements"))[:600])[:800]
finally:
    subprocess.run("git -C /repo checkout -- .", shell=True, check=True)
meta["alarms"] = [p for p, v in meta["checks"].items() if v["rc"] != 0]
json.dump(meta, open(f"{dst}/meta.json", "w"), indent=1)
print(json.dumps({"id": hid, "files": meta["files"], "suite": meta["suite"], "alarms": meta["alarms"]}))
for p in meta["alarms"]:
    print(p, meta["checks"][p]["lines"], meta["checks"][p].get("why", "")[:300])
