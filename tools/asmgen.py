"""Generators of assembler programs (as asmspec ASTs) and the shared oracle of the
assembler properties.  Every case carries the reference result computed by
asmspec at generation time (`want_ok` hex / `want_err` list), so a replay file is
self-contained."""
import subprocess
import common as C
import asmspec as A

_loaded = False


def setup():
    global _loaded
    if _loaded:
        return
    out = subprocess.run([C.CORE_EXE, "dump-ops"], capture_output=True, text=True, check=True).stdout
    rows = []
    for l in out.splitlines():
        f = l.split(" ")
        if f[0] == "cancun":
            rows.append((int(f[1]), f[2]))
    A.load_mnemonics(rows)
    _loaded = True


NAMES = ["a", "b", "c", "lbl", "loop", "end_", "x1", "fwd", "back", "L9", "z_z"]
SIMPLE_OPS = ["pc", "jumpdest", "add", "pop", "stop", "dup1", "swap2", "mload", "gas", "caller"]


def lit(rng, v=None, big=False):
    """a literal token spelling some non-negative value in a random radix"""
    if v is None:
        v = rng.choice([0, 1, 2, 7, 9, 10, 11, 99, 255, 256, 257, 65535, 65536, rng.getrandbits(rng.choice([4, 8, 16, 33, 64, 130, 256]))])
        if big:
            v = rng.getrandbits(rng.choice([256, 260, 300]))
    r = rng.random()
    if r < 0.45: return str(v)
    if r < 0.75:
        h = "%x" % v
        h = "0" * rng.choice([0, 0, 1, 2, 3, 4]) + h          # odd digit counts are legal (at least two digits)
        return "0x" + (h if len(h) >= 2 else "0" + h)
    if r < 0.88: return "0b" + "0" * rng.choice([0, 1, 3]) + bin(v)[2:]
    return "0o" + "0" * rng.choice([0, 2]) + oct(v)[2:]


def expr_tokens(rng, depth, atoms):
    """random expression as a token list; `atoms(rng)` yields leaf tokens (lists)"""
    if depth <= 0 or rng.random() < 0.3:
        return atoms(rng)
    r = rng.random()
    if r < 0.2:
        return ["("] + expr_tokens(rng, depth - 1, atoms) + [")"]
    op = rng.choice(["+", "-", "*", "/", "+", "-", "*"])
    return expr_tokens(rng, depth - 1, atoms) + [op] + expr_tokens(rng, depth - 1, atoms)


def spaced(rng, tokens):
    out = ""
    for i, t in enumerate(tokens):
        if i and rng.random() < 0.3 and t not in (")", ",") and tokens[i - 1] != "(":
            out += rng.choice([" ", "  ", "\t"])
        out += t
    return out


def X(rng, tokens):
    return A.X(tokens, spaced(rng, tokens))


def const_atoms(rng):
    r = rng.random()
    if r < 0.12: return ["-" + str(rng.choice([1, 9, 10, 11, 255, 256, 1000, rng.getrandbits(70)]))]
    return [lit(rng)]


def finish(prog, rng, tags, layout=True, extra=None):
    """render, compute the reference result, build the case"""
    setup()
    text = A.render(prog, rng if layout else None)
    blobs = {}
    for s_ in prog:
        if s_[0] == "raw":
            blobs[f"blob_{len(s_[1])}_{s_[1][:2].hex()}.hex"] = s_[1]
    if blobs:
        # large fillers are hex blobs next to the source: the case is a small file tree
        ents = [f"f:{C.txt('main.etk')}:{C.hexs(text.encode())}"] + [f"f:{C.txt(n)}:{C.hexs(b.hex().encode())}" for n, b in blobs.items()]
        line = f"asmfs {C.txt('main.etk')} {','.join(ents)}"
    else:
        line = "asm " + C.txt(text)
    case = {"line": line, "tags": tags, "src": text if len(text) < 4000 else text[:4000] + "…"}
    try:
        b, info = A.assemble(prog)
        case["want_ok"] = C.hexs(b)
        case["info"] = {"widths": info["widths"], "labels": {k: v for k, v in info["labels"].items() if "\x00" not in k}}
    except A.Faults as f:
        case["want_err"] = [list(k) for k in f.keys]
    except RecursionError:
        case["want_err"] = [["Asm.MacroRecursionLimit", None]]
    if extra:
        case.update(extra)
    return case


EQUIV = {"Parse.ImmediateTooLarge": "ExpressionTooLarge"}


def oracle(case, reply):
    """impl vs reference result"""
    if reply in ("panic", "abort", "timeout") or reply.startswith("nondet"):
        return f"assembler {reply.split(' ')[0]} on {case.get('src', '')[:120]!r}"
    if "want_ok" in case:
        if reply != "ok " + case["want_ok"]:
            return (f"assembled output differs from the reference semantics: got `{reply[:90]}`, expected `ok {case['want_ok'][:80]}` "
                    f"for {case.get('src', '')[:160]!r}")
        return None
    if "want_err" in case:
        if not reply.startswith("err "):
            return f"ill-formed program assembled (`{reply[:60]}`); expected one of {case['want_err']} for {case.get('src', '')[:160]!r}"
        if reply.endswith(" dirty"):
            return "output bytes were produced although assembly failed"
        parts = reply[4:].split(" ")
        kind = EQUIV.get(parts[0], parts[0])
        names = parts[1].split(",") if len(parts) > 1 else []
        for k, n in case["want_err"]:
            # which macro of a cycle is named when the nesting limit is hit is an accident of where the count started
            if EQUIV.get(k, k) == kind and (n is None or n in names or not names or kind.endswith("MacroRecursionLimit")):
                return None
        return f"error `{reply}` does not match the fault(s) {case['want_err']} of {case.get('src', '')[:160]!r}"
    return None


# ------------------------------------------------------------------ program families

def filler(rng, n):
    if n > 3000:
        # one raw blob (%include_hex) instead of tens of thousands of one-byte instructions
        first = rng.randrange(256)
        return [("raw", bytes([first, n % 251]) + bytes((i * 7 + first) % 256 for i in range(n - 2)))]
    return [("op", rng.choice(["pc", "jumpdest", "gas"]))] * n


def gen_layout(rng, big=False):
    """labels, fixed pushes and %push of label expressions with fillers that put offsets at width boundaries"""
    prog, labels = [], []
    nl = rng.randrange(1, 6)
    names = rng.sample(NAMES, nl)
    target = rng.choice([250, 251, 252, 253, 254, 255, 256]) if not big else rng.choice([65529, 65530, 65531, 65532, 65533, 65534, 65535, 65536])
    pieces = []
    for nm in names:
        pieces.append(("label", nm))
    for _ in range(rng.randrange(1, 7)):
        nm = rng.choice(names)
        r = rng.random()
        if r < 0.5:
            pieces.append(("apush", X(rng, [nm])))
        elif r < 0.65:
            pieces.append(("apush", X(rng, [nm, rng.choice(["+", "-"]), lit(rng, rng.choice([0, 1, 2, 3]))])))
        elif r < 0.75:
            # an operand that SHRINKS as the label moves, placed so that its value sits at a byte-length boundary:
            # the push may be widened in one relaxation round and fit in fewer bytes after the next
            k = rng.choice([target + 255 + rng.randrange(-6, 8), 300, 600, 66000, target + 65535 + rng.randrange(-4, 6)])
            pieces.append(("apush", X(rng, [lit(rng, k), "-", nm])))
        elif r < 0.9:
            pieces.append(("push", rng.choice([2, 3]), X(rng, [nm])))
        else:
            pieces.append(("push", 1, X(rng, [nm])))
    rng.shuffle(pieces)
    cut = rng.randrange(0, len(pieces) + 1)
    for i, p in enumerate(pieces):
        if i == cut:
            prog += filler(rng, max(0, target - 3 * cut + rng.randrange(-3, 4)))
        prog.append(p)
        if p[0] == "label":
            prog.append(("op", "jumpdest"))
        if rng.random() < 0.3:
            prog += filler(rng, rng.choice([1, 2, 3]))
    if cut == len(pieces):
        prog += filler(rng, target)
    return prog


def gen_shrink(rng):
    """%push operands that DECREASE when a later label moves (K - label, K / label), tuned so that the value crosses a
    byte-length boundary between two relaxation rounds: the push is widened and afterwards fits in fewer bytes, so the
    allotted width exceeds the minimal width of the final value; labels behind it must still match real offsets"""
    n = rng.choice([0, 1, 5, 40, 200, 250])
    bound, grow = rng.choice([(256, 1), (256, 1), (65536, 1)])
    pre = rng.choice([0, 0, 1, 3])
    # with one-byte width the label sits at pre + 2 + n; the value must need one byte more there, and fit again after widening
    delta = rng.choice([0, 0, 0, 1, -1, 2])
    k = (pre + 2 + n) + bound + delta
    prog = filler(rng, pre)
    prog.append(("apush", X(rng, [lit(rng, k), "-", "t"])))
    prog += filler(rng, n)
    prog += [("label", "t"), ("op", "jumpdest")]
    if rng.random() < 0.5:
        prog += filler(rng, rng.randrange(0, 4)) + [("label", "u"), ("op", "jumpdest"), ("apush", X(rng, ["u"]))]
    if rng.random() < 0.3:
        prog.append(("apush", X(rng, [lit(rng, k + 3), "-", "t"])))
    return prog


def gen_ops(rng):
    """full mnemonic set, every push width, boundary operand values, interleaved labels and definitions"""
    setup()
    prog = []
    ms = list(A.MNEMONICS)
    for _ in range(rng.randrange(1, 40)):
        r = rng.random()
        if r < 0.5:
            prog.append(("op", rng.choice(ms)))
        elif r < 0.85:
            n = rng.randrange(1, 33)
            v = rng.choice([0, 1, 256 ** n - 1, 256 ** (n - 1), rng.getrandbits(8 * n), rng.getrandbits(8),
                            rng.getrandbits(8 * rng.randrange(1, n + 1)), rng.getrandbits(8 * rng.randrange(1, n + 1))])
            v %= 256 ** n
            prog.append(("push", n, X(rng, [lit(rng, v)])))
        elif r < 0.93:
            prog.append(("apush", X(rng, [lit(rng, rng.getrandbits(rng.choice([1, 8, 9, 64, 255, 256])))])))
        else:
            nm = rng.choice(NAMES) + str(len(prog))
            prog.append(("label", nm))
    return prog


def gen_exprs(rng):
    """operand expressions: all radixes, negatives, nesting, all four operators, labels"""
    prog = [("label", "l0"), ("op", "pc"), ("op", "pc"), ("label", "l2")]
    def atoms(r):
        x = r.random()
        if x < 0.1: return [r.choice(["l0", "l2", "l9"])]
        return const_atoms(r)
    for _ in range(rng.randrange(1, 5)):
        toks = expr_tokens(rng, rng.randrange(0, 7), atoms)
        prog.append(("push", 32, X(rng, toks)) if rng.random() < 0.7 else ("apush", X(rng, toks)))
    prog += [("op", "pc")] * rng.randrange(0, 9) + [("label", "l9")]
    if rng.random() < 0.3:
        sig = rng.choice(["transfer(address,uint256)", "f()", "a_b(uint8)", "T(uint256,bytes32)", "_x()"])
        kind = rng.choice(["selector", "topic"])
        prog.append(("push", 32 if kind == "topic" else 4, X(rng, [f'{kind}("{sig}")'])))
    return prog


def gen_autopush(rng):
    """%push of constants at every byte-length boundary, three spellings of the same value"""
    k = rng.randrange(0, 34)
    v = rng.choice([0, 1, 2 ** (8 * k) - 1 if k else 0, 2 ** (8 * k), 2 ** (8 * k) + 1, rng.getrandbits(max(1, 8 * k))])
    a = rng.getrandbits(max(1, v.bit_length() // 2))
    prog = [("edef", "cst", [], X(rng, [lit(rng, v)])), ("edef", "idn", ["q"], X(rng, ["$q"]))]
    spell = [[lit(rng, v)], [lit(rng, v - a) if v >= a else lit(rng, v), "+", lit(rng, a)] if v >= a else [lit(rng, v)],
             ["cst", "(", ")"], ["idn", "(", lit(rng, v), ")"], ["(", lit(rng, v), ")", "*", "1"]]
    pre = rng.sample(spell, 3)
    for s in pre:
        prog.append(("apush", X(rng, s)))
        if rng.random() < 0.4:
            prog += [("label", rng.choice(NAMES) + str(len(prog))), ("op", "jumpdest")]
    if rng.random() < 0.15:
        prog.append(("apush", X(rng, [rng.choice(["0-1", "-5", "-300"])] if False else ["0", "-", lit(rng, rng.choice([1, 300]))])))
    return prog


def gen_range(rng):
    """operands around each width boundary: constant, backward label, forward label, macro argument"""
    n = rng.choice([1, 1, 2, 2, 3])
    bound = 256 ** n
    off = rng.choice([-2, -1, 0, 1]) + bound
    kind = rng.choice(["const", "back", "fwd", "marg", "neg", "wrap256", "wrap256", "emarg", "emarg"])
    prog = []
    if kind == "emarg":
        # the operand passes through an expression-macro ARGUMENT (bound as a value): negative, boundary and too-large
        # values, constant or label-dependent, must come out of the macro unchanged
        v = rng.choice([-1, -2, -300, off, off - 1, bound - 1, 0, -(bound)])
        how = rng.choice(["const", "back", "fwd", "apush"])
        prog.append(("edef", "idm", ["x"], X(rng, rng.choice([["$x"], ["$x", "+", "0"], ["(", "$x", ")"]]))))
        arg = ["0", "-", lit(rng, -v)] if v < 0 else [lit(rng, v)]
        if how == "const":
            prog.append(("push", n, X(rng, ["idm", "("] + arg + [")"])))
        elif how == "back":
            prog += [("label", "s0"), ("op", "jumpdest"), ("push", n, X(rng, ["idm", "(", "s0", "+"] + (["0", "-", lit(rng, -v)] if v < 0 else [lit(rng, v)]) + [")"]))]
        elif how == "fwd":
            prog += [("push", n, X(rng, ["idm", "("] + (["0", "-", "e0"] if v < 0 else ["e0", "+", lit(rng, max(v - n - 1, 0))]) + [")"])), ("label", "e0"), ("op", "jumpdest")]
        else:
            prog.append(("apush", X(rng, ["idm", "("] + arg + [")"])))
        return prog
    if kind == "wrap256":
        # an operand >= 2^256 whose low bits alone would fit: reachable only through a label, a macro or a macro argument
        z = (1 << 256) * rng.choice([1, 1, 2, 255]) + rng.choice([0, 0, 1, 5])
        how = rng.choice(["fwd", "back", "emacro", "marg", "apush"])
        if how == "fwd": prog += [("push", n, X(rng, ["e", "+", lit(rng, z)])), ("op", "jumpdest"), ("label", "e")]
        elif how == "back": prog += [("op", "jumpdest"), ("label", "s"), ("push", n, X(rng, ["s", "+", lit(rng, z)]))]
        elif how == "emacro": prog += [("edef", "big", [], X(rng, [lit(rng, z), "+", "5"])), ("push", n, X(rng, ["big", "(", ")"]))]
        elif how == "marg": prog += [("mdef", "put", ["x"], [("push", n, X(rng, ["$x"]))]), ("minv", "put", [X(rng, [lit(rng, z), "+", "7"])])]
        else: prog += [("apush", X(rng, ["e", "+", lit(rng, z)])), ("op", "jumpdest"), ("label", "e")]
        return prog
    if kind == "const":
        prog.append(("push", n, X(rng, [lit(rng, off)])))
    elif kind == "neg":
        prog += [("label", "p"), ("op", "pc"), ("push", n, X(rng, ["p", "-", lit(rng, rng.choice([0, 1, 2]))]))]
    elif kind == "back" and n <= 2:
        prog += filler(rng, off if n == 1 else 0) + [("label", "t"), ("op", "jumpdest"), ("push", n, X(rng, ["t" if n == 1 else lit(rng, off)]))]
    elif kind == "fwd" and n == 1:
        prog += [("push", 1, X(rng, ["t"]))] + filler(rng, off - 2) + [("label", "t"), ("op", "jumpdest")]
    else:
        prog += [("mdef", "pp", ["v"], [("push", n, X(rng, ["$v"]))]), ("minv", "pp", [X(rng, [lit(rng, off)])])]
    return prog


def gen_provisional(rng):
    """fixed-width operands over BACKWARD labels whose distance changes after they were read: between the two labels sits
    a %push of a forward label that is counted as two bytes when the operand is first evaluated and ends up wider.  The
    operand is in range / defined at exactly one of the two distances, so the verdict (and the bytes) must come from the
    final layout, whichever way round"""
    n = rng.choice([0, 100, 249, 250, 251, 252, 253, 254, 300, 300, 300])
    final_d = 2 if n < 250 else 3            # distance b - a once `far` is known to need one / two bytes (about; the reference decides)
    w = rng.choice([1, 1, 2])
    top = 256 ** w
    forms = [
        ["b", "-", "a", "-", "3"],                                   # -1 provisionally, 0 with a push2
        ["6", "/", "(", "b", "-", "a", "-", "2", ")"],             # division by zero provisionally
        [str(top * 4 - 1), "-", str(top), "*", "(", "b", "-", "a", ")"],   # too large at distance 2, top-1 at distance 3
        ["b", "+", str(top - 3), "-", "a"],                          # fits at distance 2, too large at distance 3
        ["b", "+", str(top - 4), "-", "a"],                          # fits either way; the VALUE must be the final one
        ["2", "-", "(", "b", "-", "a", ")"],                          # 0 provisionally, negative finally
        ["12", "/", "(", "3", "-", "(", "b", "-", "a", ")", ")"],   # fine provisionally, division by zero finally
    ]
    prog = filler(rng, rng.choice([0, 0, 1, 3]))
    prog += [("label", "a"), ("apush", X(rng, ["far"])), ("label", "b"), ("op", "jumpdest")]
    for _ in range(rng.randrange(1, 3)):
        prog.append(("push", w, X(rng, rng.choice(forms))))
    prog += filler(rng, n) + [("label", "far"), ("op", "jumpdest")]
    return prog


def gen_twice(rng):
    """a %push that has to grow TWICE, in separate relaxation rounds: its label is below 65536 while the pushes before it
    are counted with one or two bytes and at/above 65536 once they are widened (1 -> 2 -> 3 bytes), so the number of
    rounds exceeds the number of variable-sized pushes; the filler is one raw blob"""
    k = rng.choice([1, 1, 1, 2, 3])
    pre = rng.choice([0, 0, 1, 2])
    delta = rng.choice([-3, -2, -1, 0, 0, 1, 2])
    prog = filler(rng, pre)
    for _ in range(k):
        prog.append(("apush", X(rng, rng.choice([["dest"], ["dest"], ["dest", "-", str(rng.choice([1, 2, 3]))], ["dest", "+", "1"]]))))
        if rng.random() < 0.3:
            prog += filler(rng, 1)
    used = sum(2 if s[0] == "apush" else 1 for s in prog)
    prog += filler(rng, 65535 - used + delta)
    prog += [("label", "dest"), ("op", "jumpdest")]
    if rng.random() < 0.4:
        prog += filler(rng, rng.randrange(0, 3)) + [("label", "after"), ("op", "jumpdest"), ("apush", X(rng, ["after"]))]
    return prog


def gen_cascade(rng):
    """several %push of forward labels whose widenings CASCADE over successive relaxation rounds, in ANY order of the
    pushes (a later push may grow first and push an EARLIER push's target over the boundary): under the base layout the
    target of the push that grows in round j+1 sits j bytes short of the boundary (255, or 65535 after a common first
    round), so it crosses only once j other pushes have grown.  A referenced label follows every push: it has to be laid
    out again whenever ANY push before it grows, in whichever round.  In the 65535 variant every push grows twice
    (1 -> 2 all together, then 2 -> 3 one per round): more rounds than variable-sized pushes."""
    m = rng.choice([2, 2, 3, 4])
    big = rng.random() < 0.2
    B, w0 = (65535, 3) if big else (255, 2)      # base size of an auto push (opcode + immediate) when the cascade starts
    order = list(range(m))
    rng.shuffle(order)                           # order[j]: the push that grows in round j+1 of the cascade
    prog = filler(rng, rng.choice([0, 0, 1, 2]))
    for i in range(m):
        prog.append(("apush", X(rng, [f"t{i}"])))
        prog += [("label", f"m{i}"), ("op", "jumpdest")]
        if rng.random() < 0.3:
            prog += filler(rng, rng.choice([1, 2]))
    used = sum(w0 if s_[0] == "apush" else 0 if s_[0] == "label" else 1 for s_ in prog)
    jitter = rng.choice([0, 0, 0, 0, -1, 1])
    first = B + 1 - (m - 1) + jitter               # base offset of the target that crosses last
    prog += filler(rng, max(0, first - used))
    for j in range(m - 1, 0, -1):
        prog += [("label", f"t{order[j]}"), ("op", "jumpdest")]
    prog += filler(rng, rng.choice([0, 0, 1, 3]))
    prog += [("label", f"t{order[0]}"), ("op", "jumpdest")]
    for i in range(m):
        if rng.random() < 0.8:
            prog.append(("push", 3, X(rng, [f"m{i}"])))
    return prog


def gen_selfshift(rng):
    """a %push whose operand combines a constant with a label the push shifts ITSELF (the label stands right behind it):
    the constant is chosen so that every widening moves the value over the next byte-length boundary — the push grows
    1 -> 2 -> 3 bytes in successive rounds although it is the only variable-sized push (more rounds than pushes)"""
    pre = rng.choice([0, 0, 1, 3])
    gap = rng.choice([0, 0, 1, 2])
    l0 = pre + 2 + gap                              # the label while the push is counted with a one-byte immediate
    d = rng.choice([0, 0, 0, -1, 1, 2, -2])
    if rng.random() < 0.6:
        k = 65536 - (l0 + 1) + d                    # l0 + k = 65535 (two bytes), l0 + 1 + k = 65536 (three)
        e = rng.choice([["lbl", "+", lit(rng, k)], [lit(rng, k), "+", "lbl"], ["(", "lbl", ")", "+", lit(rng, k)]])
    else:
        mul = (65536 + l0) // (l0 + 1) + d          # l0 * mul < 65536 <= (l0 + 1) * mul (about)
        e = rng.choice([["lbl", "*", lit(rng, max(1, mul))], [lit(rng, max(1, mul)), "*", "lbl"]])
    prog = filler(rng, pre) + [("apush", X(rng, e))] + filler(rng, gap) + [("label", "lbl"), ("op", "jumpdest")]
    if rng.random() < 0.5:
        prog += filler(rng, rng.randrange(0, 3)) + [("label", "after"), ("op", "jumpdest"), ("push", 3, X(rng, ["after"]))]
    if rng.random() < 0.3:
        prog = [("mdef", "far", ["off"], [("apush", X(rng, ["tg", "+", "$off"])), ("label", "tg"), ("op", "jumpdest")]),
                ("minv", "far", [X(rng, [lit(rng, 65536 - 3 + d)])])] + prog
    return prog


def gen_nested_frames(rng):
    """expression macros three deep whose frames must stay apart: an ARGUMENT that is itself an invocation forwarding the
    caller's parameter (`f(h($p), 1)`, callee `f` having a parameter of the same name `p` bound to something else), and
    — as faults — a body that reads a variable it does not declare while an ENCLOSING invocation binds that name, or an
    invocation that supplies too few arguments for a parameter the caller also has"""
    kind = rng.choice(["arg_call", "arg_call", "arg_call_noparam", "leak", "leak_deep", "few_args", "neg_arg", "neg_arg"])
    a, b, c = rng.sample(range(2, 30), 3)
    if kind == "neg_arg":
        # an argument whose VALUE is negative (literal, difference, backward label distance), forwarded or not: `$p` stands
        # for that value, sign included, while the operand as a whole stays non-negative
        neg = rng.choice([["-" + str(a)], [str(b), "-", str(b + a)], ["top", "-", "bottom"], ["0", "-", str(rng.choice([1, 128, 129, 255, 256, 65536]))]])
        prog = [("edef", "add", ["x"], X(rng, ["$x", "+", str(rng.choice([300, 1000, 70000]))])),
                ("edef", "neg2", ["d"], X(rng, ["0", "-", "$d"])),
                ("edef", "fw", ["p", "q"], X(rng, ["add", "(", "$p", "-", "$q", ")"]))]
        use = [("label", "top"), ("op", "jumpdest"), ("op", "pc"), ("label", "bottom"), ("op", "jumpdest"),
               rng.choice([("push", 3, X(rng, ["add", "("] + neg + [")"])), ("push", 3, X(rng, ["neg2", "("] + neg + [")"])),
                           ("push", 3, X(rng, ["fw", "(", str(a), ",", str(a + b), ")"])), ("apush", X(rng, ["add", "("] + neg + [")"]))])]
    elif kind == "arg_call":
        prog = [("edef", "h", ["v"], X(rng, ["$v", "*", "2"])),
                ("edef", "f", ["x", "p"], X(rng, rng.choice([["$x", "+", "$p"], ["$x", "*", "100", "-", "$p"]]))),
                ("edef", "g", ["p"], X(rng, ["f", "(", "h", "(", "$p", ")", ",", lit(rng, b), ")"]))]
        use = [("push", 32, X(rng, ["g", "(", lit(rng, a), ")"]))]
    elif kind == "arg_call_noparam":
        prog = [("edef", "h", ["v"], X(rng, ["$v", "+", lit(rng, c)])),
                ("edef", "f", ["x"], X(rng, ["$x", "+", "1"])),
                ("edef", "g", ["p"], X(rng, rng.choice([["f", "(", "h", "(", "$p", ")", ")"], ["f", "(", "h", "(", "h", "(", "$p", ")", ")", ")"]])))]
        use = [("push", 32, X(rng, ["g", "(", lit(rng, a), ")"]))]
    elif kind == "leak":
        prog = [("edef", "inner", [], X(rng, ["$x", "+", "1"])),
                ("edef", "outer", ["x"], X(rng, ["inner", "(", ")", "*", "2"]))]
        use = [("push", 2, X(rng, ["outer", "(", lit(rng, a), ")"]))]
    elif kind == "leak_deep":
        prog = [("edef", "inner", ["q"], X(rng, ["$x", "+", "$q"])),
                ("edef", "mid", ["y"], X(rng, ["inner", "(", "$y", ")"])),
                ("edef", "outer", ["x"], X(rng, ["mid", "(", "$x", "+", "1", ")", "+", "fw"]))]
        use = [("push", 2, X(rng, ["outer", "(", lit(rng, a), ")"])), ("label", "fw"), ("op", "jumpdest")]
    else:
        prog = [("edef", "inner", ["x"], X(rng, ["$x", "+", "1"])),
                ("edef", "outer", ["x"], X(rng, ["inner", "(", ")", "*", "2"]))]
        use = [("push", 2, X(rng, ["outer", "(", lit(rng, a), ")"]))]
    if rng.random() < 0.4:
        rng.shuffle(prog)
    return (prog + use) if rng.random() < 0.6 else (use + prog)


def gen_missing_args(rng):
    """expression macros invoked with FEWER arguments than parameters, the missing parameter read (undeclared variable) or
    never read (D28: etk used to assemble such a program; repaired by 841db2a), directly, nested, and with the surplus parameter first / last"""
    a, b = rng.sample(range(2, 60), 2)
    kind = rng.choice(["unused_last", "unused_first_used_second", "used", "nested_unused", "zero_of_two"])
    if kind == "unused_last":
        prog = [("edef", "f", ["x", "y"], X(rng, ["$x", "+", "1"]))]
        use = [("push", 2, X(rng, ["f", "(", lit(rng, a), ")"]))]
    elif kind == "unused_first_used_second":
        prog = [("edef", "f", ["x", "y"], X(rng, ["$y", "*", "2"]))]
        use = [("push", 2, X(rng, ["f", "(", lit(rng, a), ")"]))]
    elif kind == "used":
        prog = [("edef", "f", ["x", "y"], X(rng, ["$x", "+", "$y"]))]
        use = [("push", 2, X(rng, ["f", "(", lit(rng, a), ")"]))]
    elif kind == "nested_unused":
        prog = [("edef", "f", ["x", "y"], X(rng, ["$x"])), ("edef", "g", ["p"], X(rng, ["f", "(", "$p", ")", "+", lit(rng, b)]))]
        use = [("push", 2, X(rng, ["g", "(", lit(rng, a), ")"]))]
    else:
        prog = [("edef", "f", ["x", "y"], X(rng, [lit(rng, a)]))]
        use = [rng.choice([("push", 2, X(rng, ["f", "(", ")"])), ("apush", X(rng, ["f", "(", ")", "+", "lb"]))]), ("label", "lb"), ("op", "jumpdest")]
    return (prog + use) if rng.random() < 0.5 else (use + prog)


def gen_many_expansions(rng, k=None):
    """ONE macro with a local label (used forward and backward) expanded k times (k in the hundreds / thousands) in one
    scope, directly and through a wrapper that expands it twice: every expansion must get label names of its own — with
    real 64-bit random suffixes a collision is out of the question (< 2^-40), a narrower or shared suffix shows up here"""
    k = k or rng.choice([1000, 1500, 2000])
    prog = [("mdef", "spin", [], [("label", "top"), ("op", "jumpdest"), ("push", 2, X(rng, ["top"])), ("push", 2, X(rng, ["done"])),
                                  ("op", "pop"), ("label", "done"), ("op", "jumpdest")]),
            ("mdef", "two", [], [("minv", "spin", []), ("op", "pc"), ("minv", "spin", [])])]
    body = []
    for i in range(k):
        body.append(("minv", "spin", []) if i % 3 else ("minv", "two", []))
        if i % 97 == 0:
            body.append(("op", "gas"))
    return prog + body


def gen_deep_args(rng):
    """expression-macro invocations nested THROUGH ARGUMENTS to a depth around and beyond the macro-expansion limit
    (`inc(inc(…inc(0)…))`, 200–300 deep): an argument is evaluated at the call site, at the call site's own expansion depth,
    so argument nesting is not macro recursion and must evaluate at any depth; also a chain of forwarding macros (real
    expansion depth k < 255) whose innermost call passes a deeply nested argument"""
    kind = rng.choice(["nest", "nest", "chain"])
    prog = [("edef", "inc", ["x"], X(rng, ["$x", "+", "1"]))]
    if kind == "nest":
        d = rng.choice([200, 254, 255, 256, 257, 300])
        toks = ["inc", "("] * d + [lit(rng, rng.randrange(0, 9))] + [")"] * d
        use = [("push", 2, X(rng, toks))]
    else:
        k, d = rng.choice([(50, 220), (150, 120), (200, 100)])
        prog.append(("edef", "m0", ["v"], X(rng, ["$v", "*", "2"])))
        for i in range(1, k):
            inner = ["inc", "("] * d + ["$v"] + [")"] * d if i == 1 else ["$v"]
            prog.append(("edef", f"m{i}", ["v"], X(rng, [f"m{i-1}", "("] + inner + [")"])))
        use = [("push", 2, X(rng, [f"m{k-1}", "(", lit(rng, rng.randrange(0, 9)), ")"]))]
    return (prog + use) if rng.random() < 0.5 else (use + prog)


def gen_macro_arg_layout(rng):
    """a macro ARGUMENT that mentions a label already defined at the call site while the layout is still provisional: an
    auto-sized `%push` of a far forward label stands before that label and ends up wider than the two bytes it is counted
    with when the invocation is read — the argument must denote the label's FINAL position (arguments are expressions
    substituted into the body, not values computed when the macro is expanded); directly, through arithmetic, and
    forwarded through a second macro"""
    n = rng.choice([100, 249, 252, 253, 254, 255, 256, 300, 300, 300])
    arg = rng.choice([["here"], ["here", "+", "1"], ["here", "*", "2"], ["2", "+", "here", "-", "1"]])
    prog = [("mdef", "put", ["x"], [("push", 2, X(rng, ["$x"]))])]
    inv = ("minv", "put", [X(rng, arg)])
    if rng.random() < 0.4:
        prog.append(("mdef", "fwd", ["y"], [("minv", "put", [X(rng, rng.choice([["$y"], ["$y", "+", "0"]]))]), ("op", "pc")]))
        inv = ("minv", "fwd", [X(rng, arg)])
    body = filler(rng, rng.choice([0, 0, 1, 3]))
    body += [("apush", X(rng, ["far"]))]
    if rng.random() < 0.3:
        body += [("apush", X(rng, ["far", "+", "1"]))]
    body += [("label", "here"), ("op", "jumpdest"), inv]
    if rng.random() < 0.5:
        body += [("push", 2, X(rng, ["here"]))]
    body += filler(rng, n) + [("label", "far"), ("op", "jumpdest")]
    return (prog + body) if rng.random() < 0.6 else (body + prog)


def gen_exprs_wide(rng):
    """operands the arithmetic of which must be exact beyond machine words, and hashing terms combined in ONE operand:
    two or three `selector("…")` / `topic("…")` terms added, subtracted or nested in parentheses (each term denotes the hash
    of ITS signature only), differences and sums around 2^63 / 2^64 / 2^128 (small - 0xffffffffffffffff is negative, not a
    wrapped machine word), products and quotients of 64-bit and wider values"""
    sigs = ["transfer(address,uint256)", "f()", "a_b(uint8)", "T(uint256,bytes32)", "_x()", "name()", "balanceOf(address)"]
    kind = rng.choice(["hash2", "hash2", "hash3", "wrap64", "wrap64", "wide"])
    prog = [("label", "l0"), ("op", "pc")]
    if kind in ("hash2", "hash3"):
        k = rng.choice(["selector", "topic"])
        terms = [f'{k}("{rng.choice(sigs)}")' for _ in range(2 if kind == "hash2" else 3)]
        if rng.random() < 0.3:
            terms[1] = terms[0]                     # x - x must be 0, x + x must be 2x
        toks = [terms[0]]
        for t in terms[1:]:
            toks += [rng.choice(["+", "+", "-", "*"]), rng.choice([[t], ["(", t, ")"]])[0] if False else t]
        if rng.random() < 0.3:
            toks = ["("] + toks + [")", "/", "3"]
        prog.append(("push", 32, X(rng, toks)))
        prog.append(("apush", X(rng, toks)))
    elif kind == "wrap64":
        big = rng.choice([(1 << 64) - 1, (1 << 64) - 16, (1 << 63), (1 << 63) + 1, (1 << 64), (1 << 63) - 1, (1 << 32) - 1])
        small = rng.choice([0, 1, 2, 5, 255, 256])
        form = rng.choice([[lit(rng, small), "-", lit(rng, big)], ["l0", "-", lit(rng, big)], [lit(rng, big), "-", lit(rng, small)],
                           [lit(rng, big), "+", lit(rng, big)], [lit(rng, big), "-", lit(rng, big), "+", lit(rng, small)],
                           [lit(rng, small), "-", "(", lit(rng, big), "-", lit(rng, 1), ")"]])
        n = rng.choice([1, 2, 8, 9, 32])
        prog.append(("push", n, X(rng, form)))
        prog.append(("apush", X(rng, form)))
        prog.append(("mdef", "sub1", ["x"], [("push", n, X(rng, [lit(rng, small), "-", "$x"]))]))
        prog.append(("minv", "sub1", [X(rng, [lit(rng, big)])]))
    else:
        a, b = rng.getrandbits(rng.choice([64, 65, 128, 200])), rng.getrandbits(rng.choice([33, 64, 70])) | 1
        form = rng.choice([[lit(rng, a), "*", lit(rng, b)], [lit(rng, a), "/", lit(rng, b)], [lit(rng, a), "-", lit(rng, b), "*", "2"],
                           [lit(rng, a * b), "/", lit(rng, b), "-", lit(rng, a)]])
        prog.append(("push", 32, X(rng, form)))
    return prog


def gen_macros(rng):
    """instruction macros: parameters, local labels in compound expressions, forwarding through nested
    invocations, local label as argument, clashes between local / outer / argument names, definition after use"""
    prog, defs = [], []
    inner_params = rng.sample(["x", "y", "z"], rng.randrange(0, 3))
    body = []
    if rng.random() < 0.6:
        body += [("label", "a"), ("op", "jumpdest")]
    for p in inner_params:
        toks = rng.choice([["$" + p], ["$" + p, "+", "1"], ["2", "*", "(", "$" + p, "+", "1", ")"]])
        body.append(("push", 2, X(rng, toks)) if rng.random() < 0.6 else ("apush", X(rng, toks)))
    if any(b[0] == "label" for b in body):
        body.append(("push", 2, X(rng, rng.choice([["a"], ["a", "+", "1"], ["(", "a", ")", "*", "2"], ["a", "-", "a"]]))))
    if rng.random() < 0.4:
        body.append(("push", 2, X(rng, ["outer"])))
    body.append(("op", rng.choice(SIMPLE_OPS)))
    # an EXPRESSION macro called from inside the instruction macros' bodies, its arguments mentioning parameters and
    # macro-local labels: substitution and label renaming must reach into the arguments of the call
    use_ef = rng.random() < 0.5
    if use_ef:
        defs.append(("edef", "ef", ["v"], X(rng, rng.choice([["$v", "*", "3", "+", "1"], ["2", "+", "$v"], ["$v"]]))))
        for p in inner_params:
            if rng.random() < 0.7:
                body.append(("push", 3, X(rng, rng.choice([["ef", "(", "$" + p, ")"], ["ef", "(", "$" + p, "+", "1", ")", "+", "$" + p], ["ef", "(", "ef", "(", "$" + p, ")", ")"]]))))
        if any(b[0] == "label" for b in body):
            body.append(rng.choice([("push", 3, X(rng, ["ef", "(", "a", ")"])), ("apush", X(rng, ["ef", "(", "a", "+", "1", ")"]))]))
            if inner_params:
                body.append(("push", 3, X(rng, ["ef", "(", "a", "+", "$" + inner_params[0], ")"])))
    defs.append(("mdef", "inner", inner_params, body))
    outer_params = rng.sample(["x", "y", "w"], rng.randrange(0, 3))
    obody = []
    if rng.random() < 0.5:
        obody += [("label", rng.choice(["a", "q"])), ("op", "jumpdest")]
    args = []
    for p in inner_params:
        if outer_params and rng.random() < 0.6:
            args.append(X(rng, rng.choice([["$" + rng.choice(outer_params)], ["$" + rng.choice(outer_params), "+", "3"]])))
        elif any(b[0] == "label" for b in obody) and rng.random() < 0.4:
            args.append(X(rng, [obody[0][1]]))
        else:
            args.append(X(rng, [lit(rng, rng.randrange(0, 200))]))
    obody.append(("minv", "inner", args))
    if rng.random() < 0.4:
        # the SAME label-bearing macro expanded twice inside ONE invocation of the outer macro (and the outer macro may be
        # invoked several times): every expansion needs names of its own, also the nested ones
        obody.append(("op", "gas"))
        obody.append(("minv", "inner", args))
    if use_ef and outer_params and rng.random() < 0.6:
        obody.append(("push", 3, X(rng, ["ef", "(", "$" + outer_params[0], ")"])))
    for p in outer_params:
        obody.append(("push", 2, X(rng, ["$" + p])))
    defs.append(("mdef", "outer_m", outer_params, obody))
    use = []
    use += [("label", "outer"), ("op", "jumpdest")]
    if rng.random() < 0.5:
        use += [("label", "a"), ("op", "pc")]
    for _ in range(rng.randrange(1, 4)):
        if rng.random() < 0.5:
            use.append(("minv", "inner", [X(rng, rng.choice([[lit(rng, rng.randrange(0, 300))], ["outer"], ["outer", "+", "2"], ["a"]])) for _ in inner_params]))
        else:
            use.append(("minv", "outer_m", [X(rng, rng.choice([[lit(rng, rng.randrange(0, 300))], ["outer"], ["a"]])) for _ in outer_params]))
    has_a = any(s == ("label", "a") for s in use)
    if not has_a:
        use = [s for s in use if not (s[0] == "minv" and any(x.tokens == ["a"] for x in s[2]))] or [("op", "pc")]
    if rng.random() < 0.5:
        prog = defs + use
    else:
        prog = use + defs
    return prog


def gen_emacros(rng):
    """acyclic expression-macro DAGs with shared and distinct parameter names, nested invocations"""
    names = ["f", "g", "h", "k2", "m_"][:rng.randrange(1, 6)]
    prog, defs = [], []
    for i, nm in enumerate(names):
        params = rng.sample(["x", "y", "z"], rng.randrange(0, 3))
        lower = names[:i]
        def atoms(r, params=params, lower=lower):
            x = r.random()
            if params and x < 0.4: return ["$" + r.choice(params)]
            if lower and x < 0.65:
                callee = r.choice(lower)
                n = next(len(d[2]) for d in defs if d[1] == callee)
                toks = [callee, "("]
                for j in range(n):
                    if j: toks.append(",")
                    toks += (["$" + r.choice(params)] if params and r.random() < 0.6 else [lit(r, r.randrange(0, 50))])
                return toks + [")"]
            if x < 0.75: return ["lab"]
            return [lit(r, r.randrange(0, 100))]
        defs.append(("edef", nm, params, X(rng, expr_tokens(rng, rng.randrange(0, 3), atoms))))
    use = [("label", "lab"), ("op", "pc")]
    for _ in range(rng.randrange(1, 4)):
        callee = rng.choice(defs)
        toks = [callee[1], "("]
        for j in range(len(callee[2]) + rng.choice([0, 0, 0, 1])):
            if j: toks.append(",")
            toks += rng.choice([[lit(rng, rng.randrange(0, 60))], ["lab"], ["lab", "+", "1"], [defs[0][1], "("] + sum([[lit(rng, 3), ","] for _ in defs[0][2]], [])[:-1] + [")"] if True else []])
        toks.append(")")
        use.append(("push", 32, X(rng, toks)))
    # the SAME macro expanded twice (or three times) in ONE operand with DIFFERENT arguments: the invocations nested in
    # its body (`f(3, $x)`) are syntactically identical in the two frames but denote different values
    with_params = [d for d in defs if d[2]]
    if with_params and rng.random() < 0.7:
        callee = rng.choice(with_params)
        def call(lo, hi):
            out = [callee[1], "("]
            for j in range(len(callee[2])):
                out += ([","] if j else []) + [lit(rng, rng.randrange(lo, hi))]
            return out + [")"]
        a, b = call(0, 30), call(31, 90)
        toks = rng.choice([a + [rng.choice(["+", "*"])] + b, b + ["+"] + a, a + ["+"] + b + ["+"] + a, ["(", *a, ")", "*", "3", "+", *b]])
        use.append(("push", 32, X(rng, toks)))
    prog = (defs + use) if rng.random() < 0.5 else (use + defs)
    return prog


def gen_forwarding(rng):
    """expression macros that FORWARD their parameters to another macro whose parameters have the SAME names: in the same
    order, permuted (swap / rotation), partially, through two levels, as bare `$p` and inside compound arguments; values
    all different and operations non-commutative, so that any confusion between the caller's and the callee's frame
    (dynamic scoping, sequential binding, lazy binding) changes the result"""
    names = rng.choice([["a", "b"], ["x", "y"], ["a", "b", "c"], ["x"]])
    k = len(names)
    # leaf: a non-commutative polynomial of its parameters
    leaf_body = ["$" + names[0]]
    for i, nm in enumerate(names[1:], start=2):
        leaf_body += ["*", str(10 ** (i - 1)), "-", "$" + nm] if rng.random() < 0.5 else ["-", "$" + nm, "*", str(i + 1)]
    leaf_body = ["1000", "+"] + leaf_body
    prog = [("edef", "leaf", names, X(rng, leaf_body))]
    perm = list(names)
    how = rng.choice(["same", "swap", "rotate", "compound", "partial"])
    if how == "swap" and k >= 2: perm[0], perm[1] = perm[1], perm[0]
    elif how == "rotate" and k >= 2: perm = perm[1:] + perm[:1]
    def fwd(callee, order):
        toks = [callee, "("]
        for i, nm in enumerate(order):
            if i: toks.append(",")
            if how == "compound" and rng.random() < 0.6:
                toks += ["$" + nm, "+", str(rng.randrange(1, 4))]
            elif how == "partial" and i == k - 1:
                toks += [str(rng.randrange(50, 60))]
            else:
                toks += ["$" + nm]
        return toks + [")"]
    prog.append(("edef", "mid", names, X(rng, fwd("leaf", perm) + rng.choice([[], ["*", "2"], ["+", "$" + names[0]]]))))
    top = "mid"
    if rng.random() < 0.5:
        perm2 = perm[1:] + perm[:1] if k >= 2 else perm
        prog.append(("edef", "outer", names, X(rng, fwd("mid", perm2))))
        top = "outer"
    vals = rng.sample(range(2, 40), k)
    call = [top, "("]
    for i, v in enumerate(vals):
        if i: call.append(",")
        call.append(lit(rng, v))
    call.append(")")
    stmts = [("push", 32, X(rng, call))]
    if rng.random() < 0.5:
        stmts.append(("apush", X(rng, call + ["+", "1"])))
    if rng.random() < 0.5:
        rng.shuffle(prog)
    return (prog + stmts) if rng.random() < 0.6 else (stmts + prog)


def inject_fault(rng, prog):
    """break a well-formed program in one of the ways C13 lists"""
    prog = list(prog)
    kind = rng.choice(["undef_label", "dup_label", "undef_imacro", "undef_emacro", "dup_macro", "arity", "div0", "too_large",
                       "negative", "undef_var", "self_macro", "self_emacro", "surplus_undef_label", "surplus_undef_macro",
                       "emacro_cycle_via_arg", "dup_label_in_macro", "emacro_is_imacro", "imacro_is_emacro"])
    pos = rng.randrange(0, len(prog) + 1)
    if kind == "undef_label": prog.insert(pos, ("push", 2, X(rng, rng.choice([["nowhere"], ["nowhere", "+", "1"], ["2", "*", "nowhere"]]))))
    elif kind == "dup_label": prog[pos:pos] = [("label", "dd")]; prog.insert(rng.randrange(0, len(prog) + 1), ("label", "dd"))
    elif kind == "undef_imacro": prog.insert(pos, ("minv", "ghost", []))
    elif kind == "undef_emacro": prog.insert(pos, ("push", 1, X(rng, ["ghost", "(", "1", ")"])))
    elif kind == "dup_macro":
        prog.insert(pos, ("mdef", "dm", [], [("op", "pc")])); prog.insert(rng.randrange(0, len(prog) + 1), rng.choice([("mdef", "dm", [], [("op", "gas")]), ("edef", "dm", [], X(rng, ["1"]))]))
    elif kind == "arity":
        prog.insert(0, ("mdef", "ar", ["p", "q"], [("push", 1, X(rng, ["$p"]))])); prog.insert(rng.randrange(1, len(prog) + 1), ("minv", "ar", [X(rng, ["1"])] * rng.choice([0, 1, 3])))
    elif kind == "div0": prog.insert(pos, ("push", 1, X(rng, rng.choice([["1", "/", "0"], ["4", "/", "(", "2", "-", "2", ")"]]))))
    elif kind == "too_large": prog.insert(pos, rng.choice([("push", 1, X(rng, ["255", "+", "1"])), ("apush", X(rng, [lit(rng, 2 ** 256)]))]))
    elif kind == "negative": prog.insert(pos, rng.choice([("push", 1, X(rng, ["1", "-", "2"])), ("apush", X(rng, ["-7"]))]))
    elif kind == "undef_var": prog.insert(pos, ("push", 1, X(rng, ["$nope"])))
    elif kind in ("surplus_undef_label", "surplus_undef_macro"):
        # a name mentioned only in an argument the expression macro ignores
        prog.insert(0, ("edef", "sp1", ["x"], X(rng, ["$x"])))
        extra = ["nowhere"] if kind == "surplus_undef_label" else ["ghost", "(", "2", ")"]
        first = rng.choice([["1"], ["7", "+", "1"]])
        stmt = rng.choice([("push", 1, X(rng, ["sp1", "("] + first + [","] + extra + [")"])),
                           ("apush", X(rng, ["sp1", "("] + first + [","] + extra + [")"]))])
        prog.insert(rng.randrange(1, len(prog) + 1), stmt)
    elif kind == "emacro_cycle_via_arg":
        # the recursive call sits inside an ARGUMENT of another macro (directly, mutually, or under an operator)
        prog.insert(0, ("edef", "idq", ["x"], X(rng, ["$x"])))
        shape = rng.choice(["direct", "mutual", "operator"])
        if shape == "direct":
            prog.insert(1, ("edef", "cyc", [], X(rng, ["idq", "(", "cyc", "(", ")", ")"])))
        elif shape == "mutual":
            prog.insert(1, ("edef", "cyc", [], X(rng, ["idq", "(", "cyd", "(", ")", ")"])))
            prog.insert(2, ("edef", "cyd", [], X(rng, ["1", "+", "idq", "(", "cyc", "(", ")", ")"])))
        else:
            prog.insert(1, ("edef", "cyc", [], X(rng, ["idq", "(", "1", "+", "cyc", "(", ")", ")", "*", "2"])))
        prog.append(rng.choice([("push", 1, X(rng, ["cyc", "(", ")"])), ("apush", X(rng, ["cyc", "(", ")"]))]))
    elif kind == "dup_label_in_macro":
        prog.insert(0, ("mdef", "dlm", [], [("label", "zz"), ("op", "jumpdest"), ("label", "zz")])); prog.insert(rng.randrange(1, len(prog) + 1), ("minv", "dlm", []))
    elif kind == "emacro_is_imacro":
        prog.insert(0, ("mdef", "imx", [], [("op", "pc")])); prog.insert(rng.randrange(1, len(prog) + 1), ("push", 1, X(rng, rng.choice([["imx", "(", ")"], ["1", "+", "imx", "(", ")"]]))))
    elif kind == "imacro_is_emacro":
        prog.insert(0, ("edef", "emx", [], X(rng, ["7"]))); prog.insert(rng.randrange(1, len(prog) + 1), ("minv", "emx", []))
    elif kind == "self_macro": prog.insert(0, ("mdef", "rec", [], [("op", "pc"), ("minv", "rec", [])])); prog.append(("minv", "rec", []))
    elif kind == "self_emacro": prog.insert(0, ("edef", "rece", ["x"], X(rng, ["rece", "(", "$x", ")"]))); prog.append(("push", 1, X(rng, ["rece", "(", "1", ")"])))
    return prog, kind
