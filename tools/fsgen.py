"""Generators of file trees for C12 / C18 and their oracles."""
import os, re, tempfile, shutil
import common as C
import asmspec as A
import asmgen as G


def enc_entries(entries):
    out = []
    for e in entries:
        if e[0] == "f": out.append(f"f:{C.txt(e[1])}:{C.hexs(e[2])}")
        elif e[0] == "d": out.append(f"d:{C.txt(e[1])}")
        else: out.append(f"l:{C.txt(e[1])}:{C.txt(e[2])}")
    return ",".join(out)


def line(top, entries):
    return f"asmfs {C.txt(top)} {enc_entries(entries)}"


# ------------------------------------------------------------------ C12: composition

def small_prog(rng, names):
    """a little program using labels / an auto push / a macro, as asmspec AST"""
    prog = []
    for _ in range(rng.randrange(1, 5)):
        r = rng.random()
        if r < 0.3: prog += [("label", rng.choice(names)), ("op", "jumpdest")]
        elif r < 0.55: prog.append(("apush", G.X(rng, [rng.choice(names)])))
        elif r < 0.7: prog.append(("push", 2, G.X(rng, [rng.choice(names), "+", "1"])))
        else: prog.append(("op", rng.choice(G.SIMPLE_OPS)))
    # make it well formed: define every mentioned label once
    used = set()
    defined = set()
    out = []
    for s in prog:
        if s[0] == "label":
            if s[1] in defined:
                continue
            defined.add(s[1])
        out.append(s)
        for x in ([s[1]] if s[0] == "apush" else [s[2]] if s[0] == "push" else []):
            used |= {t for t in x.tokens if t in names}
    for l in sorted(used - defined):
        out += [("label", l), ("op", "jumpdest")]
    return out


def gen_compose(rng):
    """directory tree of sources connected by import / include / include_hex in subdirectories; returns
    (top, entries, expected bytes or None)"""
    G.setup()
    files = {}
    def build(dirpath, depth, labelset):
        """returns (text, stmts-for-reference) of a source living in dirpath"""
        names = labelset
        stmts, text = [], ""
        parts = []
        nparts = rng.randrange(1, 4)
        for i in range(nparts):
            seg = small_prog(rng, names)
            parts.append(("code", seg))
            if depth < 3 and rng.random() < 0.6:
                kind = rng.choice(["import", "include", "include_hex"])
                sub = rng.choice(["", "sub/", "d1/d2/"])
                fname = f"{sub}f{len(files)}_{depth}"
                if kind == "include_hex":
                    blob = bytes(rng.randrange(256) for _ in range(rng.choice([0, 1, 5, 300])))
                    files[os.path.join(dirpath, fname + ".hex")] = (blob.hex() + rng.choice(["", "\n", " "])).encode()
                    parts.append(("hex", fname + ".hex", blob))
                else:
                    child_dir = os.path.normpath(os.path.join(dirpath, os.path.dirname(fname)))
                    # imports share the label namespace of the importer: use disjoint label names
                    child_names = [n + "i" for n in names] if kind == "import" else names
                    ctext, cstmts = build(child_dir, depth + 1, child_names)
                    files[os.path.join(dirpath, fname + ".etk")] = ctext.encode()
                    parts.append((kind, fname + ".etk", cstmts))
        # labels must be unique across all code segments and imports of this scope: rename per segment
        flat = []
        for idx, p in enumerate(parts):
            if p[0] == "code":
                flat += rename(p[1], f"_{depth}{idx}")
        # rebuild text and reference in order
        text_lines, ref = [], []
        for idx, p in enumerate(parts):
            if p[0] == "code":
                seg = rename(p[1], f"_{depth}{idx}")
                text_lines.append(A.render(seg, None).rstrip("\n"))
                ref += seg
            elif p[0] == "hex":
                text_lines.append(f'%include_hex("{p[1]}")'); ref.append(("raw", p[2]))
            elif p[0] == "import":
                text_lines.append(f'%import("{p[1]}")'); ref += p[2]
            else:
                text_lines.append(f'%include("{p[1]}")')
                if any(x[0] == "bad" for x in p[2]):
                    ref.append(("bad",))       # something below does not assemble: no reference bytes for this tree
                else:
                    try:
                        b, _ = A.assemble(p[2])
                        ref.append(("raw", b))
                    except A.Faults:
                        ref.append(("bad",))
        return "\n".join(text_lines) + "\n", ref
    def rename(seg, suffix):
        out = []
        for s in seg:
            if s[0] == "label": out.append(("label", s[1] + suffix))
            elif s[0] == "apush": out.append(("apush", A.X([t + suffix if t[0].isalpha() and not t.startswith("0") else t for t in s[1].tokens])))
            elif s[0] == "push": out.append(("push", s[1], A.X([t + suffix if t[0].isalpha() and not t.startswith("0") else t for t in s[2].tokens])))
            else: out.append(s)
        return out
    text, ref = build("proj", 0, ["a", "b", "c"])
    files["proj/main.etk"] = text.encode()
    entries = [("f", p, c) for p, c in files.items()]
    want = None
    if not any(s[0] == "bad" for s in ref):
        try:
            want, _ = A.assemble(ref)
        except A.Faults as f:
            want = ("err", [list(k) for k in f.keys])
    return "proj/main.etk", entries, want


def gen_isolation(rng):
    """%include isolates NAMES in both directions, whether or not the included file defines labels: the same macro name
    on both sides, an included file that mentions a label / invokes a macro only the includer has, an includer that
    invokes a macro / mentions a label only the included file has.  Expected: the included file assembled on its own
    (its fault set if it does not assemble) spliced as raw bytes into the includer assembled on its own."""
    G.setup()
    X = lambda toks: G.X(rng, toks)
    with_label = rng.random() < 0.4          # the interesting half: NO label in the included file
    scenario = rng.choice(["same_macro", "same_emacro", "child_uses_parent_label", "child_uses_parent_macro",
                           "parent_uses_child_macro", "parent_uses_child_label", "same_label_both"])
    child, pre, post = [], [], []
    if scenario == "same_macro":
        child = [("mdef", "tag", [], [("push", 1, X(["0x22"]))]), ("minv", "tag", []), ("minv", "tag", [])]
        pre = [("mdef", "tag", [], [("push", 1, X(["0x11"]))]), ("minv", "tag", [])]
        post = [("label", "after"), ("op", "jumpdest"), ("push", 1, X(["after"])), ("minv", "tag", [])]
    elif scenario == "same_emacro":
        child = [("edef", "k", [], X(["7"])), ("push", 1, X(["k", "(", ")"]))]
        pre = [("edef", "k", [], X(["9"])), ("push", 1, X(["k", "(", ")"]))]
        post = [("push", 1, X(["k", "(", ")", "+", "1"]))]
    elif scenario == "child_uses_parent_label":
        child = [("op", "pc"), ("push", 1, X(["outer"]))]
        pre = [("label", "outer"), ("op", "jumpdest")]
    elif scenario == "child_uses_parent_macro":
        child = [("op", "pc"), ("minv", "helper", [])]
        pre = [("mdef", "helper", [], [("op", "gas")]), ("minv", "helper", [])]
    elif scenario == "parent_uses_child_macro":
        child = [("mdef", "helper", [], [("op", "pc")]), ("minv", "helper", [])]
        post = [("minv", "helper", [])]
    elif scenario == "parent_uses_child_label":
        child = [("label", "inner"), ("op", "jumpdest")]
        post = [("push", 1, X(["inner"]))]
        with_label = True
    else:
        child = [("label", "x"), ("op", "jumpdest"), ("push", 1, X(["x"]))]
        pre = [("op", "pc"), ("label", "x"), ("op", "jumpdest")]
        post = [("push", 1, X(["x"]))]
        with_label = True
    if with_label and not any(c[0] == "label" for c in child):
        child = child + [("label", "own"), ("op", "jumpdest")]
    files = {"proj/lib/inc.etk": A.render(child, None).encode()}
    main_text = A.render(pre, None) + '%include("lib/inc.etk")\n' + A.render(post, None)
    files["proj/main.etk"] = main_text.encode()
    try:
        cb, _ = A.assemble(child)
        ref = pre + [("raw", cb)] + post
        try:
            want, _ = A.assemble(ref)
        except A.Faults as f:
            want = ("err", [list(k) for k in f.keys])
    except A.Faults as f:
        want = ("err", [list(k) for k in f.keys])
    return "proj/main.etk", [("f", p, c) for p, c in files.items()], want, scenario + ("+label" if with_label else "")


def gen_same_literal(rng):
    """the SAME literal path string used by directives of files in DIFFERENT directories (each resolves beside its own
    file, so they name different files with different contents), and the same file reached twice; libraries in a/ and b/
    are included or imported by the top-level file, a label after them must account for both lengths"""
    G.setup()
    X = lambda toks: G.X(rng, toks)
    how_lib = rng.choice(["include", "import"])
    how_inner = rng.choice(["import", "include", "include_hex"])
    ca = [("push", 1, X([G.lit(rng, rng.randrange(1, 200))]))]
    cb = [("push", 2, X([G.lit(rng, rng.randrange(300, 60000))])), ("op", "pc")]
    files = {}
    def lib(d, tag, consts):
        body = [("push", 1, X([str(tag)]))]
        if how_inner == "include_hex":
            blob, _ = A.assemble(consts)
            files[f"proj/{d}/consts.etk"] = blob.hex().encode()
            inner_ref = [("raw", blob)]
        else:
            files[f"proj/{d}/consts.etk"] = A.render(consts, None).encode()
            inner_ref = consts if how_inner == "import" else [("raw", A.assemble(consts)[0])]
        text = A.render(body, None) + f'%{how_inner}("consts.etk")\n'
        files[f"proj/{d}/lib.etk"] = text.encode()
        return body + inner_ref
    ra, rb = lib("a", 1, ca), lib("b", 2, cb)
    twice = rng.random() < 0.3
    pre = [("push", 1, X(["end"]))]
    post = [("label", "end"), ("op", "jumpdest")]
    seq = [("a", ra), ("b", rb)] + ([("a", ra)] if twice else [])
    if rng.random() < 0.5:
        seq.reverse()
    main = A.render(pre, None) + "".join(f'%{how_lib}("{d}/lib.etk")\n' for d, _ in seq) + A.render(post, None)
    files["proj/main.etk"] = main.encode()
    ref = list(pre)
    for d, r in seq:
        ref += r if how_lib == "import" else [("raw", A.assemble(r)[0])]
    ref += post
    try:
        want, _ = A.assemble(ref)
    except A.Faults as f:
        want = ("err", [list(k) for k in f.keys])
    return "proj/main.etk", [("f", p, c) for p, c in files.items()], want, f"{how_lib}/{how_inner}" + ("/twice" if twice else "")


# ------------------------------------------------------------------ C18: containment

CANARY = bytes.fromhex("63deadbeef")          # push4 0xdeadbeef


def gen_contain(rng):
    """tree with a project root, files outside it carrying a canary, and directives reaching for them through
    relative / absolute paths, `..`, symlinked files and directories (inside and outside), a root reached
    through a symlink"""
    inside_ok = "pc\n"
    entries = [("f", "outside/secret.etk", b"push4 0xdeadbeef\n"), ("f", "outside/secret.hex", b"63deadbeef"),
               # siblings whose NAME extends the root directory's name (component-wise vs. textual prefix)
               ("f", "proj-private/secret.etk", b"push4 0xdeadbeef\n"), ("f", "proj2/secret.hex", b"63deadbeef"),
               ("l", "proj/sib_link.etk", "../proj-private/secret.etk"),
               ("f", "proj/lib/ok.etk", inside_ok.encode()), ("f", "proj/lib/ok.hex", b"58"),
               ("f", "proj/lib/deep/x.etk", b'%import("../ok.etk")\n'),
               ("l", "proj/lib/link_in.etk", "ok.etk"), ("l", "proj/link_out.etk", "../outside/secret.etk"),
               ("l", "proj/dirlink_out", "../outside"), ("l", "proj/dirlink_in", "lib"),
               ("l", "proj/abs_out.etk", "/outside/secret.etk"), ("l", "proj/lib/up.etk", "../../outside/secret.etk"),
               ("l", "realroot_link", "proj"), ("l", "proj/loop", "loop"),
               ("f", "proj/lib/esc.etk", b'%include("../../outside/secret.etk")\n'),
               # targets that pass the containment check but cannot be read / decoded: not UTF-8, not hex, odd length
               ("f", "proj/lib/bin.hex", b"\xff\xfe\x00"), ("f", "proj/lib/bin.etk", b"pc\n\xc3\x28\n"),
               ("f", "proj/lib/bad.hex", b"5b zz"), ("f", "proj/lib/odd.hex", b" 5b5\n"), ("f", "proj/lib/ws.hex", b"\n\t 5b5b \r\n")]
    targets = ["lib/ok.etk", "lib/link_in.etk", "dirlink_in/ok.etk", "lib/deep/x.etk", "lib/../lib/ok.etk",
               "link_out.etk", "dirlink_out/secret.etk", "abs_out.etk", "lib/up.etk", "../outside/secret.etk",
               "lib/../../outside/secret.etk", "@T@/outside/secret.etk", "@T@/proj/lib/ok.etk", "lib/esc.etk",
               "missing.etk", "loop", "lib", "../proj/lib/ok.etk", "dirlink_in/../../outside/secret.etk",
               "../proj-private/secret.etk", "@T@/proj-private/secret.etk", "sib_link.etk", "lib/../../proj-private/secret.etk",
               "lib/bin.etk", "../elsewhere/lib/ok.etk"]
    hex_targets = ["lib/ok.hex", "../outside/secret.hex", "dirlink_out/secret.hex", "@T@/outside/secret.hex", "dirlink_in/ok.hex",
                   "../proj2/secret.hex", "@T@/proj2/secret.hex", "lib", "missing.hex", "lib/bin.hex", "lib/bad.hex", "lib/odd.hex",
                   "lib/ws.hex", "loop", "../elsewhere/lib/ok.hex"]
    # nested sources with directives of their own: paths in them are relative to THEIR directory, and a plain
    # descending path can still leave the root through a symlinked file or directory next to the nested file
    entries += [("l", "proj/lib/vendor", "../../outside"), ("l", "proj/lib/deep/out.etk", "../../../outside/secret.etk"),
                ("l", "proj/lib/deep/vend", "../../../proj-private")]
    nested_targets = {
        "lib": ["ok.etk", "link_in.etk", "up.etk", "deep/x.etk", "../lib/ok.etk", "vendor/secret.etk", "../link_out.etk",
                "../../outside/secret.etk", "@T@/outside/secret.etk", "missing.etk", "../sib_link.etk", "deep/out.etk",
                "deep/nest1.etk", "deep/vend/secret.etk"],
        "lib/deep": ["x.etk", "out.etk", "../up.etk", "../ok.etk", "vend/secret.etk", "../vendor/secret.etk", "../link_in.etk"],
    }
    nested_hex = {"lib": ["ok.hex", "vendor/secret.hex", "../../outside/secret.hex"], "lib/deep": ["../ok.hex", "../vendor/secret.hex"]}

    def directives(tg, hx, n):
        out = []
        for _ in range(n):
            r = rng.random()
            if r < 0.4: out.append(f'%import("{rng.choice(tg)}")')
            elif r < 0.8: out.append(f'%include("{rng.choice(tg)}")')
            else: out.append(f'%include_hex("{rng.choice(hx)}")')
            if rng.random() < 0.3:
                out.append("gas")
        return out
    nested = []
    for d, name in (("lib/deep", "nest1.etk"), ("lib", "nest0.etk")):
        body = directives(nested_targets[d], nested_hex[d], rng.randrange(1, 3))
        entries.append(("f", f"proj/{d}/{name}", ("\n".join(body) + "\n").encode()))
        nested.append(f"{d}/{name}")
    lines = directives(targets + nested * 6, hex_targets, rng.randrange(1, 4))
    top = rng.choice(["proj/main.etk", "proj/main.etk", "realroot_link/main.etk", "proj/main_link.etk"])
    entries.append(("f", "proj/main.etk", ("\n".join(lines) + "\n").encode()))
    # the top-level source itself reached through a symlinked FILE whose target lives in another directory: the root is
    # the directory of the path AS GIVEN (proj/), not of the link target — files beside the target are outside
    entries.append(("f", "elsewhere/real_main.etk", ("\n".join(lines) + "\n").encode()))
    entries.append(("f", "elsewhere/lib/ok.etk", b"push4 0xdeadbeef\n"))
    entries.append(("f", "elsewhere/lib/ok.hex", b"63deadbeef"))
    entries.append(("l", "proj/main_link.etk", "../elsewhere/real_main.etk"))
    return top, entries, lines


def contain_oracle(case, reply):
    if reply in ("panic", "abort", "timeout"):
        return f"assembler {reply} on a file tree"
    if reply.startswith("ok "):
        h = reply[3:]
        out = bytes.fromhex(h) if h != "-" else b""
        if b"\xde\xad\xbe\xef" in out:
            return "output contains bytes of a file outside the project root (canary deadbeef)"
        # independent check with the operating system's own resolver
        bad = outside_targets(case)
        if bad:
            return f"assembly succeeded although the directive target {bad!r} resolves outside the project root"
    elif reply.endswith(" dirty"):
        return "output bytes were produced although assembly failed"
    return None


def materialise(case):
    """the case's tree on disk (as the harness builds it); returns (base, top_abs)"""
    top, entries, lines = case["fs"]
    base = os.path.realpath(tempfile.mkdtemp(prefix="etk-oracle-"))
    for e in entries:
        p = os.path.join(base, e[1])
        os.makedirs(os.path.dirname(p), exist_ok=True)
        if e[0] == "f":
            content = bytes.fromhex(e[2]) if isinstance(e[2], str) else e[2]
            open(p, "wb").write(content.replace(b"@T@", base.encode()))
        elif e[0] == "d":
            os.makedirs(p, exist_ok=True)
        else:
            tgt = e[2]
            if tgt.startswith("/"):
                tgt = os.path.join(base, tgt.lstrip("/"))
            if not os.path.lexists(p):
                os.symlink(tgt, p)
    return base, os.path.join(base, top)


def canonical_reads(case, opened):
    """canonical locations (relative to the tree) of the files the real code opened for reading, the top-level source
    itself (its first read) excluded"""
    base, top_abs = materialise(case)
    try:
        out, top_seen = [], False
        for rel in opened:
            real = os.path.realpath(os.path.join(base, rel))
            if not top_seen and real == os.path.realpath(top_abs):
                top_seen = True
                continue
            out.append(os.path.relpath(real, base))
        return out
    finally:
        shutil.rmtree(base, ignore_errors=True)


def reads_outside(case, opened):
    base, top_abs = materialise(case)
    try:
        root = os.path.realpath(os.path.dirname(top_abs))
        top_seen = False
        for rel in opened:
            real = os.path.realpath(os.path.join(base, rel))
            if not top_seen and real == os.path.realpath(top_abs):
                # the top-level source is named by the user (it may be a symlink to a file elsewhere): its own first read is
                # not a directive's read
                top_seen = True
                continue
            if not (real == root or real.startswith(root + os.sep)):
                return rel
        return None
    finally:
        shutil.rmtree(base, ignore_errors=True)


def outside_targets(case):
    """materialise the tree and follow the top-level file's directives with os.path.realpath"""
    top, entries, lines = case["fs"]
    base = tempfile.mkdtemp(prefix="etk-oracle-")
    try:
        base = os.path.realpath(base)
        for e in entries:
            p = os.path.join(base, e[1])
            os.makedirs(os.path.dirname(p), exist_ok=True)
            if e[0] == "f":
                content = bytes.fromhex(e[2]) if isinstance(e[2], str) else e[2]
                open(p, "wb").write(content.replace(b"@T@", base.encode()))
            elif e[0] == "d":
                os.makedirs(p, exist_ok=True)
            else:
                tgt = e[2]
                if tgt.startswith("/"):
                    tgt = os.path.join(base, tgt.lstrip("/"))
                if not os.path.lexists(p):
                    os.symlink(tgt, p)
        top_abs = os.path.join(base, top)
        root = os.path.realpath(os.path.dirname(top_abs))

        def follow(src_abs, text, depth):
            """directives of one source file, then (for import/include of a file inside the root) of the file it names;
            relative paths are anchored at the directory of the file as it was NAMED (etk joins, then canonicalises)"""
            if depth > 12:
                return None
            for l in text.splitlines():
                m = re.match(r'%(import|include|include_hex)\("([^"]*)"\)', l)
                if not m:
                    continue
                t = m.group(2).replace("@T@", base)
                cand = t if t.startswith("/") else os.path.join(os.path.dirname(src_abs), t)
                real = os.path.realpath(cand)
                if os.path.exists(real) and not (real == root or real.startswith(root + os.sep)):
                    return m.group(2)
                if m.group(1) != "include_hex" and os.path.isfile(real):
                    try:
                        sub = open(real, "rb").read().decode()
                    except Exception:
                        continue
                    bad = follow(cand, sub, depth + 1)
                    if bad:
                        return bad
            return None
        return follow(top_abs, "\n".join(lines), 0)
    finally:
        shutil.rmtree(base, ignore_errors=True)
