#!/usr/bin/env python3
"""harmless_regress.py [<id>...]
False-alarm regression: every stored behaviour-preserving change (harmless/<id>/patch.diff) is applied to /repo in turn,
all 20 quick checks are run (every one must stay quiet), and the change is undone.  Results: harmless/REGRESSION.json."""
import json, os, subprocess, sys, time
ids = sys.argv[1:] or sorted(d for d in os.listdir("/verif/harmless") if os.path.isfile(f"/verif/harmless/{d}/patch.diff"))
assert subprocess.run("git -C /repo status --porcelain", shell=True, capture_output=True, text=True).stdout.strip() == "", "/repo is not clean"
out = {}
for hid in ids:
    r = subprocess.run(f"git -C /repo apply /verif/harmless/{hid}/patch.diff", shell=True, capture_output=True, text=True)
    if r.returncode != 0:
        out[hid] = {"error": "patch does not apply: " + r.stderr[:200]}
        continue
    alarms = {}
    try:
        for i in range(1, 21):
            p = f"C{i:02d}"
            c = subprocess.run(["./check", p, "quick"], cwd="/verif", capture_output=True, text=True, timeout=7200)
            if c.returncode != 0:
                alarms[p] = [l for l in c.stdout.splitlines() if l.startswith("VIOLATION") or l.startswith(p + " ") or l.startswith("INFRA")]
    finally:
        subprocess.run("git -C /repo checkout -- .", shell=True, check=True)
    out[hid] = {"alarms": alarms}
    print(hid, "quiet" if not alarms else alarms, flush=True)
path = "/verif/harmless/REGRESSION.json"
allres = json.load(open(path))["results"] if os.path.exists(path) and sys.argv[1:] else {}
allres.update(out)
json.dump({"when": time.strftime("%Y-%m-%d %H:%M"), "results": allres}, open(path, "w"), indent=1)
print("ALARMS:", {k: list(v.get("alarms", {})) for k, v in out.items() if v.get("alarms") or v.get("error")})
