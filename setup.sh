#!/bin/sh
# Build the framework from files on disk only (offline).
set -e
cd "$(dirname "$0")"
export CARGO_NET_OFFLINE=true
(cd harness/core && cargo build --offline --features hooks)
if [ -d harness/analyze/src ] && [ -f harness/analyze/Cargo.toml ]; then
  (cd harness/analyze && cargo build --offline --features hooks)
fi
# translators: the same code path the checks use (the opcode-table translator needs the OUT_DIR cargo reports for etk-ops)
python3 - <<'PY'
import sys
sys.path.insert(0, "tools")
import common as C
C.build_core()
C.regenerate()
if C.TRANSLATOR_PROBLEMS:
    print(C.TRANSLATOR_PROBLEMS)
    sys.exit(1)
PY
(cd lean && lake build EtkVerif etkmodel)
