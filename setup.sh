#!/bin/sh
# Build the framework from files on disk only (offline).
set -e
cd "$(dirname "$0")"
export CARGO_NET_OFFLINE=true
(cd harness/core && cargo build --offline --features hooks)
if [ -d harness/analyze/src ] && [ -f harness/analyze/Cargo.toml ]; then
  (cd harness/analyze && cargo build --offline --features hooks)
fi
python3 tools/gen_optable.py .build/cargo-core/debug/etk-h lean/EtkVerif/Gen/OpTable.lean
[ -f tools/gen_grammar.py ] && python3 tools/gen_grammar.py .build/cargo-core/debug/etk-h lean/EtkVerif/Gen/Grammar.lean /repo/etk-asm/src/parse/asm.pest
[ -f tools/gen_sites.py ] && python3 tools/gen_sites.py .build/cargo-core/debug/etk-h lean/EtkVerif/Gen/PanicSites.lean
(cd lean && lake build EtkVerif etkmodel)
